#!/bin/sh
# Re-confirm one kept seed on /repo HEAD: existing suite / demo with / demo without / the named checks.
# usage: tools/seedrecheck.sh <seed id, e.g. C02-a> <demo package dir in the worktree> <go test flags or -> <check ids...>
S=$1; PKG=$2; FLAGS=$3; shift 3
D=/tmp/seedre-$S
rm -rf $D; mkdir -p $D/out
git -C /repo worktree remove --force $D/wt 2>/dev/null
git -C /repo worktree add -q --detach $D/wt HEAD || exit 2
cp /verif/seeded/$S/patch.diff $D/out/
for f in /verif/seeded/$S/*_test.go.txt; do cp $f $D/out/$(basename $f .txt); done
/verif/tools/seedcheck2.sh $D $PKG "$FLAGS" "$@"
git -C /repo worktree remove --force $D/wt
rm -rf $D
