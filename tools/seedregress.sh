#!/bin/sh
# Re-run every kept seeded change against the current quick checks: each must still be caught.
# usage: tools/seedregress.sh [seed ids...]   (default: all of seeded/)
# Uses one scratch worktree of /repo HEAD under /tmp and removes it at the end; evidence and replays of these
# runs go to a scratch directory (VERIF_SCRATCH_OUT), not to /verif.
cd /verif || exit 2
WT=/tmp/wt-seedreg-$$   # one worktree per invocation: two runs at the same time must not share it
git -C /repo worktree remove --force $WT 2>/dev/null
git -C /repo worktree add -q --detach $WT HEAD || exit 2
seeds="$@"
[ -z "$seeds" ] && seeds=$(ls seeded)
miss=0
for s in $seeds; do
  pid=$(echo $s | cut -d- -f1)
  ids=$pid
  [ "$s" = "C08-c" ] && ids=C06
  [ "$s" = "C09-d" ] && ids=C01
  [ "$s" = "C01-e" ] && ids=C02
  [ "$s" = "C04-e" ] && ids=C06
  [ "$s" = "C06-e" ] && ids=C03
  [ "$s" = "C07-e" ] && ids=C01
  [ "$s" = "C09-e" ] && ids=C01
  [ "$s" = "C14-e" ] && ids=C16
  [ "$s" = "C18-e" ] && ids=C17
  [ "$s" = "C05-f" ] && ids=C01
  [ "$s" = "C09-f" ] && ids=C05
  [ "$s" = "C09-g" ] && ids=C01
  [ "$s" = "C10-g" ] && ids=C06
  [ "$s" = "C16-g" ] && ids=C10
  [ "$s" = "C18-g" ] && ids=C17
  [ "$s" = "C02-h" ] && ids=C01
  [ "$s" = "C05-h" ] && ids=C06
  [ "$s" = "C13-h" ] && ids=C12
  [ "$s" = "C18-h" ] && ids=C17
  [ "$s" = "C01-i" ] && ids=C10
  [ "$s" = "C03-i" ] && ids=C06
  [ "$s" = "C05-i" ] && ids=C13
  [ "$s" = "C09-i" ] && ids=C01
  [ "$s" = "C14-i" ] && ids=C06
  [ "$s" = "C18-i" ] && ids=C17
  if grep -q '"retired"' /verif/seeded/$s/meta.json; then echo "$s: retired (see meta.json)"; continue; fi
  git -C $WT checkout -q -- . ; git -C $WT clean -fdq
  if ! git -C $WT apply /verif/seeded/$s/patch.diff 2>/dev/null; then echo "$s: PATCH DOES NOT APPLY"; miss=$((miss+1)); continue; fi
  caught=no
  for id in $ids; do
    out=$(VERIF_SCRATCH_OUT=/tmp/seedreg-out-$$ VERIF_REPO=$WT ./check $id quick 2>&1)
    if echo "$out" | grep -q "^VIOLATION"; then caught="$id: $(echo "$out" | grep -A1 '^VIOLATION' | sed -n 2p | cut -c1-140)"; break; fi
  done
  if [ "$caught" = no ]; then echo "$s: NOT CAUGHT ($(echo "$out" | grep -E '^(OK|INCONCLUSIVE)' | head -1 | cut -c1-120))"; miss=$((miss+1)); else echo "$s: caught by $caught"; fi
done
git -C /repo worktree remove --force $WT
rm -rf /tmp/seedreg-out-$$
echo "not caught: $miss"
