#!/bin/sh
# usage: seedcheck2.sh <seed dir> <demo package dir relative to the worktree> <go test extra flags or -> <property id>...
D=$1; PKG=$2; FLAGS=$3; shift 3
[ "$FLAGS" = "-" ] && FLAGS=""
WT=$D/wt; OUT=$D/out
export GOFLAGS=-mod=mod GOPROXY=off
cd $WT || exit 2
git checkout -q -- . ; git clean -fdq
git apply $OUT/patch.diff || { echo "PATCH DOES NOT APPLY"; exit 2; }
echo "== (a) existing suite with the patch"
go test -vet=off -count=1 ./cache/ ./config/ ./proxy/... ./tests/ ./utils/... 2>&1 | grep -E "^(ok|FAIL|---)" | tr '\n' ' '; echo
for f in $OUT/*_test.go; do cp $f $WT/$PKG/; done
echo "== (b) demo with the patch (must fail)"
go test -vet=off -count=1 $FLAGS -run 'TestSeed' ./$PKG/ 2>&1 | grep -E "^(ok|FAIL|--- FAIL|WARNING: DATA RACE)" | sort | uniq -c | head -5 | tr '\n' ' '; echo
git apply -R $OUT/patch.diff
echo "== (c) demo without the patch (must pass)"
go test -vet=off -count=1 $FLAGS -run 'TestSeed' ./$PKG/ 2>&1 | grep -E "^(ok|FAIL|--- FAIL|WARNING: DATA RACE)" | sort | uniq -c | head -5 | tr '\n' ' '; echo
git clean -fdq; git checkout -q -- .
git apply $OUT/patch.diff
for id in "$@"; do
  echo "== ./check $id quick against the broken tree"
  (cd /verif && VERIF_SCRATCH_OUT=$D/scr VERIF_REPO=$WT ./check $id quick 2>&1 | grep -v "^KNOWN" | cut -c1-330 | head -8; )
done
git checkout -q -- . ; git clean -fdq
