#!/usr/bin/env python3
"""Regenerates MANIFEST.json from the table below + checks.json (kept by hand)."""
import json, os, subprocess
ROOT = os.path.join(os.path.dirname(os.path.abspath(__file__)), "..")
checks = json.load(open(os.path.join(ROOT, "checks.json")))
props = [json.loads(l) for l in open(os.path.join(ROOT, "properties.jsonl"))]
TABLE = json.load(open(os.path.join(ROOT, "tools", "claims.json")))
hooks = json.load(open(os.path.join(ROOT, "tools", "hooks.json")))
m = {
    "version": 1,
    "setup_cmd": "./setup.sh",
    "hooks": hooks,
    "engines": [{"name": "verifharness", "path": "harness", "serves_properties": sorted(checks),
                 "kind_free_text": "Go module (replace reservoir => /repo): pgregory.net/rapid v1.3.0 properties and state machines, bounded-exhaustive enumerations, native go fuzz targets (thorough), driven by ./check"}],
    "checks": [],
    "not_applicable": [],
    "notes": "Every check rebuilds its test binary from /repo's working tree with -tags verif (GOTOOLCHAIN=local go1.26.8, offline). Exit 2 = inconclusive (build failure, timeout), never a violation. known_findings.json is read-only at run time.",
}
for p in props:
    pid = p["id"]
    if pid in checks and pid in TABLE:
        c = TABLE[pid]
        m["checks"].append({
            "property_id": pid,
            "quick_cmd": "./check %s quick" % pid,
            "thorough_cmd": "./check %s thorough" % pid,
            "evidence_file": "/verif/evidence/%s.json" % pid,
            "replay_cmd_template": "./check %s --replay {path}" % pid,
            "engine": "verifharness",
            "level_claimed": {"category": checks[pid].get("level", "exploration"), "text": c["text"], "design_ref": c.get("design_ref", "DESIGN.md section 5, " + pid)},
            "level_note": c["note"],
            "technique": c["technique"],
        })
    else:
        m["not_applicable"].append({"property_id": pid, "reason": TABLE.get(pid, {}).get("na", "check not built yet in this round; see DESIGN.md section 11 for the order of work")})
json.dump(m, open(os.path.join(ROOT, "MANIFEST.json"), "w"), indent=1)
open(os.path.join(ROOT, "MANIFEST.json"), "a").write("\n")
