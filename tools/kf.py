#!/usr/bin/env python3
"""Maintain known_findings.json by hand (never called by a check).
  kf.py fixed <prop> <sig> <commit> <witness> <what>
  kf.py open  <prop> <sig> <witness> <what>
"""
import json, sys, os
P = os.path.join(os.path.dirname(os.path.abspath(__file__)), "..", "known_findings.json")
d = json.load(open(P))
kind = sys.argv[1]
if kind == "fixed":
    _, _, prop, sig, commit, witness, what = sys.argv
    d["fixed"] = [e for e in d["fixed"] if not (e["property"] == prop and e["signature"] == sig)]
    d["fixed"].append({"property": prop, "signature": sig, "commit": commit, "witness": witness, "what": what,
                       "line": "fixed: property=%s %s %s" % (prop, commit, what)})
elif kind == "open":
    _, _, prop, sig, witness, what = sys.argv
    d["open"] = [e for e in d["open"] if not (e["property"] == prop and e["signature"] == sig)]
    d["open"].append({"property": prop, "signature": sig, "witness": witness, "what": what})
json.dump(d, open(P, "w"), indent=1)
open(P, "a").write("\n")
