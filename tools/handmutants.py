#!/usr/bin/env python3
"""Sensitivity runs: apply one hand-written mutation to a scratch worktree of /repo (never to /repo),
run the named check's quick tier against it with VERIF_REPO, record whether it reports a violation."""
import json, os, subprocess, sys
WT = "/tmp/wt-mut"
M = [
 ("C02-drop-query", "cache/cache_key.go", 'normHost, normPath, r.URL.RawQuery)', 'normHost, normPath, "")', "C02"),
 ("C02-lowercase-path", "cache/cache_key.go", 'normPath := path.Clean(rawPath)', 'normPath := strings.ToLower(path.Clean(rawPath))', "C02"),
 ("C03-ignore-force", "proxy/headers/header_directives.go", 'if !forceDefaultCacheMaxAge {', 'if true {', "C03"),
 ("C03-expires-after", "cache/memory_cache.go", 'if entry.meta.Expires.Before(time.Now()) {\n\t\tstale = true\n\t}\n\n\tentry.meta.LastAccess = time.Now()\n\tmetrics.Global.Cache.CacheHits.Increment()\n\n\treturn &Entry', 'if entry.meta.Expires.Add(time.Second).Before(time.Now()) {\n\t\tstale = true\n\t}\n\n\tentry.meta.LastAccess = time.Now()\n\tmetrics.Global.Cache.CacheHits.Increment()\n\n\treturn &Entry', "C03"),
 ("C04-drop-status-check", "proxy/fetcher.go", 'resp.StatusCode == http.StatusOK &&\n\t\tresp.Request.Method == http.MethodGet', 'resp.Request.Method == http.MethodGet', "C04"),
 ("C04-203-cacheable", "proxy/fetcher.go", 'case http.StatusOK:\n\t\treturn f.handleUpstream200', 'case http.StatusOK, http.StatusNonAuthoritativeInfo:\n\t\treturn f.handleUpstream200', "C04"),
 ("C05-no-singleflight", "proxy/fetcher.go", 'fetchedObj, err, shared := f.group.Do(key.Hex, func() (any, error) {', 'fetchedObj, err, shared := func(_ string, fn func() (any, error)) (any, error, bool) { v, e := fn(); return v, e, false }(key.Hex, func() (any, error) {', "C05"),
 ("C05-follower-shares-handle", "proxy/fetcher.go", '\t\tif shared {\n\t\t\tif fetched.Cached.Entry.Data != nil {', '\t\tif shared && false {\n\t\t\tif fetched.Cached.Entry.Data != nil {', "C05"),
 ("C06-skip-update-metadata", "proxy/fetcher.go", 'meta.Expires = time.Now().Add(maxAge)', '_ = maxAge', "C06"),
 ("C06-forward-client-inm", "proxy/headers/header_directives.go", '\thd.IfNoneMatch.SyncRemove(header)\n\thd.IfMatch.SyncRemove(header)\n\t// Conditionals we could not parse (e.g. a malformed date) must not reach the origin either\n\tfor _, name := range []string{"If-Modified-Since", "If-Unmodified-Since", "If-None-Match", "If-Match"} {', '\thd.IfMatch.SyncRemove(header)\n\t// Conditionals we could not parse (e.g. a malformed date) must not reach the origin either\n\tfor _, name := range []string{"If-Modified-Since", "If-Unmodified-Since", "If-Match"} {', "C06"),
 ("C06-200-keeps-old-entry", "proxy/fetcher.go", '\tcase http.StatusOK:\n\t\treturn f.handleUpstream200(req, resp, key, upstreamHd)', '\tcase http.StatusOK:\n\t\tif e, err := f.cache.Get(key); err == nil && req.Header.Get("If-None-Match") != "" {\n\t\t\treturn e, nil\n\t\t}\n\t\treturn f.handleUpstream200(req, resp, key, upstreamHd)', "C06"),
 ("C07-suffix-off-by-one", "proxy/headers/range_header.go", 'start = dataSize - r.end\n', 'start = dataSize - r.end - 1\n', "C07"),
 ("C07-multi-as-first", "proxy/headers/range_header.go", "\t\tif valuesStr[endTail] == ',' {\n\t\t\treturn rangeHeader{}, ErrMultipleRangesNotSupported\n\t\t}\n\t\treturn rangeHeader{}, ErrInvalidRangeFormat\n\t}\n\n\treturn rangeHeader{start: start, end: end}, nil", "\t\tif valuesStr[endTail] == ',' {\n\t\t\treturn rangeHeader{start: start, end: end}, nil\n\t\t}\n\t\treturn rangeHeader{}, ErrInvalidRangeFormat\n\t}\n\n\treturn rangeHeader{start: start, end: end}, nil", "C07"),
 ("C08-keep-connection-nominated", "proxy/requests.go", '\t\t\theader.Del(token)\n', '\t\t\t_ = token\n', "C08"),
 ("C08-status-201-to-200", "proxy/proxy.go", 'return finalizeAndRespond(r, fetched.Direct.Response.Body, fetched.Direct.UpstreamStatus, req)', 'st := fetched.Direct.UpstreamStatus\n\t\tif st == 201 {\n\t\t\tst = 200\n\t\t}\n\t\treturn finalizeAndRespond(r, fetched.Direct.Response.Body, st, req)', "C08"),
 ("C09-no-fallback-on-store-error", "proxy/fetcher.go", 'return nil, fmt.Errorf("%w: %w: %v", ErrNotCacheable, ErrCacheResponseFailed, err)', 'return nil, fmt.Errorf("%w: %v", ErrCacheResponseFailed, err)', "C09"),
 ("C10-responder-hoisted", "proxy/proxy.go", '\t\ttunnelResponder := responder.NewRawHTTPResponder(tlsConn)\n', '\t\tif tunnelResponder == nil {\n\t\t\ttunnelResponder = responder.NewRawHTTPResponder(tlsConn)\n\t\t}\n', "C10"),
 ("C11-zero-validity", "proxy/certs/private_ca.go", 'ca.createCert([]string{host}, 240)', 'ca.createCert([]string{host}, 0)', "C11"),
 ("C11-cache-by-hostport", "proxy/certs/private_ca.go", 'ca.certs.Set(host, &tlsCert)', 'ca.certs.Set(host+":x", &tlsCert)', "C11"),
 ("C12-delete-skips-decrement", "cache/memory_cache.go", '\tdecrementCacheEntries()\n\tdecrementCacheSize(&c.byteSize, entry.meta.Size)\n\n\treturn nil\n}', '\tdecrementCacheEntries()\n\t_ = entry\n\n\treturn nil\n}', "C12"),
 ("C12-overwrite-subtracts-new", "cache/file_cache.go", 'decrementCacheSize(&c.byteSize, previous.Size)', 'decrementCacheSize(&c.byteSize, previous.Size*0+fileSize)', "C12"),
 ("C13-target-100pc", "cache/cache_janitor.go", 'float64(maxCacheBytes) * 0.8', 'float64(maxCacheBytes) * 1.0', "C13"),
 ("C13-ascending-sort", "cache/cache_janitor.go", 'return cmp.Compare(y.priority, x.priority)', 'return cmp.Compare(x.priority, y.priority)', "C13"),
 ("C13-sweep-after", "cache/cache_janitor.go", '\t\texpired := meta.Expires.Before(time.Now())\n\t\tlock.RUnlock()', '\t\texpired := meta.Expires.Before(time.Now().Add(time.Second))\n\t\tlock.RUnlock()', "C13"),
 ("C14-mu-held-across-remove", "cache/memory_cache.go", '\tdelete(c.entries, key)\n\tc.mu.Unlock()\n', '\tdelete(c.entries, key)\n\tc.mu.Unlock()\n\tc.mu.Lock()\n\tc.mu.RLock()\n\tc.mu.RUnlock()\n\tc.mu.Unlock()\n', "C14"),
 ("C15-get-rlock", "cache/memory_cache.go", '\tlock.Lock() // Using full lock to update LastAccess safely\n\tdefer lock.Unlock()\n\n\tc.mu.RLock()\n\tentry, ok := c.entries[key]\n\tc.mu.RUnlock()\n\n\tif !ok {\n\t\tmetrics.Global.Cache.CacheMisses.Increment()\n\t\treturn nil, ErrCacheEntryNotFound', '\tlock.RLock() // Using full lock to update LastAccess safely\n\tdefer lock.RUnlock()\n\n\tc.mu.RLock()\n\tentry, ok := c.entries[key]\n\tc.mu.RUnlock()\n\n\tif !ok {\n\t\tmetrics.Global.Cache.CacheMisses.Increment()\n\t\treturn nil, ErrCacheEntryNotFound', "C15"),
 ("C16-phc-check-removed", "utils/phc/phc.go", 'decodedLen != len(salt)', 'decodedLen < len(salt)', "C16"),
 ("C17-marshal-override", "config/overwritable.go", 'func (o overwritable[T]) MarshalJSON() ([]byte, error) {\n\treturn json.Marshal(o.value)', 'func (o overwritable[T]) MarshalJSON() ([]byte, error) {\n\treturn json.Marshal(o.Get())', "C17"),
 ("C17-K-is-1000", "utils/bytesize/bytesize.go", 'UnitK int64 = 1024\n', 'UnitK int64 = 1000\n', "C17"),
 ("C18-skip-verify", "config/update.go", '\tif err := cfg.verify(); err != nil {\n\t\tslog.Error("Updated config failed verification"', '\tif err := cfg.verify(); err != nil && false {\n\t\tslog.Error("Updated config failed verification"', "C18"),
 ("C18-no-rollback-on-persist-failure", "config/update.go", '\t\tslog.Error("Failed to persist updated config", "error", err)\n\t\trollback()', '\t\tslog.Error("Failed to persist updated config", "error", err)', "C18"),
 ("C19-fire-skips-first", "utils/event/event.go", 'for _, subscriber := range e.subscribers {\n\t\tgo subscriber.fn(data)', 'for i, subscriber := range e.subscribers {\n\t\tif i == 0 && len(e.subscribers) > 2 {\n\t\t\tcontinue\n\t\t}\n\t\tgo subscriber.fn(data)', "C19"),
 ("C19-unsubscribe-removes-first", "utils/event/event.go", 'if s == sub {', 'if s == sub || i == 0 {', "C19"),
 ("C20-me-no-auth", "webserver/api/auth/me.go", 'RequiresAuth: true', 'RequiresAuth: false', "C20"),
 ("C20-expiry-compare-wrong", "webserver/auth/session.go", 'if !sess.ExpiresAt.After(time.Now()) {', 'if !sess.ExpiresAt.After(time.Now().Add(-5 * time.Minute)) {', "C20"),
 ("C03-age-drops-resident-time", "proxy/cache_status_headers.go", 'currentAge := max(0, correctedInitialAge+residentTime)', 'currentAge := max(0, correctedInitialAge)\n\t_ = residentTime', "C03"),
 ("C03-ttl-from-written", "proxy/cache_status_headers.go", 'ttl := max(0, int(time.Until(cached.ForceUnwrap().Metadata.Expires).Seconds()))', 'ttl := max(0, int(cached.ForceUnwrap().Metadata.Expires.Sub(cached.ForceUnwrap().Metadata.TimeWritten).Seconds()))', "C03"),
 ("C19-log-level-ignored", "logging/logging.go", '\t\tlogLevel.Set(newLevel)\n\t\tslog.Info("Log level changed by configuration"', '\t\t_ = newLevel\n\t\tslog.Info("Log level changed by configuration"', "C19"),
 ("C01-file-create-in-place", "cache/file_cache.go", 'tmpName := fileName + ".tmp"', 'tmpName := fileName', "C01"),
 ("C01-memory-shares-buffer", "cache/memory_cache.go", 'buf := bytes.NewBuffer(make([]byte, 0, INIT_BUFFER_SIZE))', 'buf := sharedBuf\n\tbuf.Reset()', "C01"),
]
only = sys.argv[1:] 
results = {}
head = subprocess.check_output(["git", "-C", "/repo", "rev-parse", "HEAD"]).decode().strip()
subprocess.run(["git", "-C", WT, "checkout", "-q", "--detach", head], check=True)
for name, path, old, new, check in M:
    if only and not any(name.startswith(o) for o in only):
        continue
    subprocess.run(["git", "-C", WT, "checkout", "-q", "--", "."], check=True)
    p = os.path.join(WT, path)
    s = open(p).read()
    if old not in s:
        print(name, "PATTERN-NOT-FOUND"); results[name] = "pattern-not-found"; continue
    s = s.replace(old, new, 1)
    if name == "C01-memory-shares-buffer":
        s = s.replace("const INIT_BUFFER_SIZE = 1024 * 1", "const INIT_BUFFER_SIZE = 1024 * 1\n\nvar sharedBuf = bytes.NewBuffer(make([]byte, 0, INIT_BUFFER_SIZE))")
    if name == "C10-responder-hoisted":
        s = s.replace("\tconnReader := bufio.NewReader(tlsConn)\n", "\tconnReader := bufio.NewReader(tlsConn)\n\tvar tunnelResponder *responder.RawHTTPResponder\n")
    open(p, "w").write(s)
    env = dict(os.environ, VERIF_REPO=WT, VERIF_SCRATCH_OUT="/tmp/handmut-out")
    r = subprocess.run(["/verif/check", check, "quick"], env=env, stdout=subprocess.PIPE, stderr=subprocess.STDOUT, text=True, cwd="/verif")
    viol = [l for l in r.stdout.splitlines() if l.startswith("VIOLATION")]
    sigs = [l.strip()[:110] for l in r.stdout.splitlines() if l.startswith("  ") and ":" in l][:2]
    verdict = "caught" if r.returncode == 1 and viol else ("inconclusive" if r.returncode == 2 else "MISSED")
    print("%-36s %-4s %-12s %s" % (name, check, verdict, sigs[:1]))
    sys.stdout.flush()
    results[name] = {"check": check, "verdict": verdict, "signatures": sigs}
subprocess.run(["git", "-C", WT, "checkout", "-q", "--", "."], check=True)
if only:
    try:
        prev = json.load(open("/verif/tools/handmutants.last.json"))
    except Exception:
        prev = {}
    prev.update(results)
    results = prev
json.dump(results, open("/verif/tools/handmutants.last.json", "w"), indent=1)
