// Package scen holds scenario runners that more than one check package registers.
package scen

import (
	"fmt"
	"net/http"
	"os"
	"path/filepath"
	"pgregory.net/rapid"
	"regexp"
	"strconv"
	"time"

	"reservoir/config"

	"verifharness/internal/ev"
	"verifharness/internal/origin"
	"verifharness/internal/px"
)

// PolicyStep is one accepted run-time change of the cache policy of a RUNNING proxy.
type PolicyStep struct {
	Setting string `json:"setting"` // ignore_cache_control | force_default_max_age | default_max_age
	Bool    bool   `json:"bool,omitempty"`
	Secs    int    `json:"secs,omitempty"`
}

type PolicyCase struct {
	Backend string       `json:"backend"`
	Steps   []PolicyStep `json:"steps"`
}

var reTTL = regexp.MustCompile(`ttl=(\d+)`)

// PolicyLive applies the steps one after the other to a running proxy; after every step two fresh
// resources are requested twice: one the origin marks no-store, one it marks max-age=50.
func PolicyLive(c PolicyCase, o *ev.Obs) *ev.Failure {
	dir, _ := os.MkdirTemp("", "verif-policy-")
	defer os.RemoveAll(dir)
	old, _ := os.Getwd()
	os.MkdirAll(filepath.Join(dir, "var"), 0o755)
	os.Chdir(dir)
	defer os.Chdir(old)
	org := origin.New(func(w http.ResponseWriter, r *http.Request, _ []byte, e *origin.Entry) {
		e.Status = 200
		if len(r.URL.Path) > 1 && r.URL.Path[1] == 'v' {
			// a resource with a validator and no lifetime of its own: revalidations are answered 304
			w.Header().Set("ETag", `"v1"`)
			if r.Header.Get("If-None-Match") == `"v1"` {
				e.Status = 304
				w.WriteHeader(304)
				return
			}
			w.Write([]byte("body of " + r.URL.Path))
			return
		}
		if len(r.URL.Path) > 1 && r.URL.Path[1] == 'n' {
			w.Header().Set("Cache-Control", "no-store")
		} else {
			w.Header().Set("Cache-Control", "max-age=50")
		}
		w.Write([]byte("body of " + r.URL.Path))
	})
	defer org.Close()
	ignore, force, def := false, false, 3000
	env := px.New(px.Opts{Backend: c.Backend, IgnoreCC: ignore, ForceDefault: force, DefaultMaxAge: time.Duration(def) * time.Second})
	defer env.Close()
	o.NonTrivial = len(c.Steps) >= 2
	for i, st := range c.Steps {
		var doc map[string]any
		switch st.Setting {
		case "ignore_cache_control":
			ignore = st.Bool
			doc = map[string]any{"ignore_cache_control": st.Bool}
		case "force_default_max_age":
			force = st.Bool
			doc = map[string]any{"force_default_max_age": st.Bool}
		default:
			def = st.Secs
			doc = map[string]any{"default_max_age": fmt.Sprintf("%ds", st.Secs)}
		}
		o.Class("change:" + st.Setting)
		if _, err := config.UpdatePartialFromConfig(env.Cfg, map[string]any{"proxy": map[string]any{"cache_policy": doc}}); err != nil {
			return ev.Failf("policy.update-rejected", "%v", err)
		}
		state := fmt.Sprintf("after step %d of %v (now ignore=%v force=%v default=%ds)", i, c.Steps[:i+1], ignore, force, def)
		var second [2]*px.Resp
		for k, kind := range []string{"n", "m"} {
			path := fmt.Sprintf("/%s%d", kind, i)
			for rep := 0; rep < 2; rep++ {
				r, err := env.Plain(px.Req{Method: "GET", Host: org.Addr(), Target: path, ReqID: fmt.Sprintf("%s%d-%d", kind, i, rep)})
				if err != nil || r.Status != 200 {
					return ev.Failf("policy.no-response", "%s: %v", state, err)
				}
				second[k] = r
			}
		}
		nHits := len(org.ByReqID(fmt.Sprintf("n%d-1", i)))
		if ignore && nHits != 0 {
			return ev.Failf("policy.not-followed:ignore-on", "%s: a no-store resource was fetched again on its second request", state)
		}
		if !ignore && nHits == 0 {
			return ev.Failf("policy.not-followed:ignore-off", "%s: a no-store resource was served from the store", state)
		}
		m := second[1]
		if len(org.ByReqID(fmt.Sprintf("m%d-1", i))) != 0 || m.Header.Get("X-Cache") != "HIT" {
			return ev.Failf("policy.max-age-resource-not-reused", "%s: a max-age=50 resource was not served from the store on its second request", state)
		}
		mm := reTTL.FindStringSubmatch(m.Header.Get("Cache-Status"))
		if mm == nil {
			return ev.Failf("policy.ttl-missing", "%s: Cache-Status %q", state, m.Header.Get("Cache-Status"))
		}
		ttl, _ := strconv.Atoi(mm[1])
		want := 50
		if force {
			want = def
		}
		if ttl > want || ttl < want-3 {
			which := "max-age"
			if force {
				which = "forced-default"
			}
			return ev.Failf("policy.not-followed:lifetime:"+which, "%s: the stored max-age=50 resource has ttl=%d, expected about %d", state, ttl, want)
		}
	}
	// ---- the lifetime a 304 renews an entry for is the default in force when the 304 arrives
	set := func(doc map[string]any) *ev.Failure {
		if _, err := config.UpdatePartialFromConfig(env.Cfg, map[string]any{"proxy": map[string]any{"cache_policy": doc}}); err != nil {
			return ev.Failf("policy.update-rejected", "%v", err)
		}
		return nil
	}
	get := func(id string) (*px.Resp, *ev.Failure) {
		r, err := env.Plain(px.Req{Method: "GET", Host: org.Addr(), Target: "/v", ReqID: id})
		if err != nil || r.Status != 200 {
			return nil, ev.Failf("policy.no-response", "renewal phase %s: %v", id, err)
		}
		return r, nil
	}
	if f := set(map[string]any{"default_max_age": "150ms"}); f != nil {
		return f
	}
	if _, f := get("v-store"); f != nil {
		return f
	}
	time.Sleep(220 * time.Millisecond)
	renew := 1234
	if def == renew {
		renew = 4321
	}
	if f := set(map[string]any{"default_max_age": fmt.Sprintf("%ds", renew)}); f != nil {
		return f
	}
	r1, f := get("v-reval")
	if f != nil {
		return f
	}
	if got := org.ByReqID("v-reval"); len(got) != 1 || got[0].Status != 304 {
		o.Class("renewal-phase:no-304")
		return nil // the entry was not revalidated with a 304 (evicted, or not yet stale on a slow machine): nothing to judge
	}
	r2, f := get("v-hit")
	if f != nil {
		return f
	}
	o.Class("renewal-phase:judged")
	if len(org.ByReqID("v-hit")) != 0 || r2.Header.Get("X-Cache") != "HIT" {
		return ev.Failf("policy.not-followed:renewal", "default_max_age was set to %ds before the 304 arrived, but the renewed entry is not served from the store right afterwards (X-Cache %q after %q)", renew, r2.Header.Get("X-Cache"), r1.Header.Get("X-Cache"))
	}
	mm := reTTL.FindStringSubmatch(r2.Header.Get("Cache-Status"))
	if mm == nil {
		return ev.Failf("policy.ttl-missing", "renewal phase: Cache-Status %q", r2.Header.Get("Cache-Status"))
	}
	if ttl, _ := strconv.Atoi(mm[1]); ttl > renew || ttl < renew-5 {
		return ev.Failf("policy.not-followed:renewal-lifetime", "default_max_age was %ds at start-up, %v during the steps and was set to %ds before the entry's revalidation was answered 304: the renewed entry has ttl=%d, expected about %d", 3000, c.Steps, renew, ttl, renew)
	}
	return nil
}

// DrawPolicy draws a sequence of policy changes.
func DrawPolicy(t *rapid.T) PolicyCase {
	c := PolicyCase{Backend: rapid.SampledFrom([]string{"memory", "file"}).Draw(t, "backend")}
	for i := rapid.IntRange(1, 6).Draw(t, "steps"); i > 0; i-- {
		switch rapid.IntRange(0, 2).Draw(t, "setting") {
		case 0:
			c.Steps = append(c.Steps, PolicyStep{Setting: "ignore_cache_control", Bool: rapid.Bool().Draw(t, "v")})
		case 1:
			c.Steps = append(c.Steps, PolicyStep{Setting: "force_default_max_age", Bool: rapid.Bool().Draw(t, "v")})
		default:
			c.Steps = append(c.Steps, PolicyStep{Setting: "default_max_age", Secs: rapid.SampledFrom([]int{120, 700, 3000, 86400}).Draw(t, "secs")})
		}
	}
	return c
}
