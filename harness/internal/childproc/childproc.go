// Package childproc drives the journaling cfgchild process.
package childproc

import (
	"bufio"
	"encoding/json"
	"fmt"
	"io"
	"os"
	"os/exec"
	"path/filepath"
	"strings"
	"sync"
	"time"
)

type Result struct {
	Err       string            `json:"err,omitempty"`
	Status    int               `json:"status,omitempty"`
	Vector    map[string]string `json:"vector,omitempty"`
	Notified  []string          `json:"notified,omitempty"`
	FileSha   string            `json:"file_sha,omitempty"`
	File      string            `json:"file,omitempty"`
	Runs      int64             `json:"cleanup_runs,omitempty"`
	Probe     string            `json:"probe,omitempty"`
	Workable  string            `json:"workable,omitempty"`
	LoadReset bool              `json:"load_reset,omitempty"`
	Restart   bool              `json:"restart_needed,omitempty"`
}

type Child struct {
	Dir    string
	cmd    *exec.Cmd
	in     io.WriteCloser
	out    *bufio.Reader
	stderr *strings.Builder
	mu     sync.Mutex
}

// Died is returned when the child process ended while executing a command.
type Died struct {
	Stderr string
}

func (d *Died) Error() string { return "child process died: " + d.Stderr }

// Start launches cfgchild in a fresh scratch directory.
func Start() (*Child, error) {
	bin := filepath.Join(os.Getenv("VERIF_BIN_DIR"), "cfgchild")
	if _, err := os.Stat(bin); err != nil {
		return nil, fmt.Errorf("cfgchild binary not built: %w", err)
	}
	dir, err := os.MkdirTemp("", "verif-child-")
	if err != nil {
		return nil, err
	}
	c := &Child{Dir: dir, stderr: &strings.Builder{}}
	c.cmd = exec.Command(bin)
	c.cmd.Dir = dir
	c.cmd.Stderr = &lockedWriter{w: c.stderr, mu: &c.mu}
	c.in, _ = c.cmd.StdinPipe()
	so, _ := c.cmd.StdoutPipe()
	c.out = bufio.NewReaderSize(so, 1<<20)
	if err := c.cmd.Start(); err != nil {
		os.RemoveAll(dir)
		return nil, err
	}
	return c, nil
}

type lockedWriter struct {
	w  *strings.Builder
	mu *sync.Mutex
}

func (l *lockedWriter) Write(p []byte) (int, error) {
	l.mu.Lock()
	defer l.mu.Unlock()
	if l.w.Len() < 20000 {
		l.w.Write(p)
	}
	return len(p), nil
}

// Do sends one command and waits for its result. A *Died error means the process ended.
func (c *Child) Do(cmd map[string]any) (*Result, error) {
	b, _ := json.Marshal(cmd)
	if _, err := c.in.Write(append(b, '\n')); err != nil {
		return nil, c.died()
	}
	type rd struct {
		line string
		err  error
	}
	ch := make(chan rd, 1)
	go func() {
		for {
			line, err := c.out.ReadString('\n')
			if err != nil {
				ch <- rd{"", err}
				return
			}
			if strings.HasPrefix(line, "R ") {
				ch <- rd{line[2:], nil}
				return
			}
		}
	}()
	select {
	case r := <-ch:
		if r.err != nil {
			return nil, c.died()
		}
		var res Result
		if err := json.Unmarshal([]byte(r.line), &res); err != nil {
			return nil, err
		}
		return &res, nil
	case <-time.After(180 * time.Second): // the child may be waiting for a free loopback port (netx.Calm, up to 75 s)
		c.cmd.Process.Kill()
		return nil, fmt.Errorf("child timeout")
	}
}

func (c *Child) died() error {
	c.cmd.Wait()
	c.mu.Lock()
	s := c.stderr.String()
	c.mu.Unlock()
	if i := strings.Index(s, "panic:"); i >= 0 {
		s = s[i:]
	} else if i := strings.Index(s, "fatal error:"); i >= 0 {
		s = s[i:]
	}
	if len(s) > 1500 {
		s = s[:1500]
	}
	return &Died{Stderr: s}
}

func (c *Child) Close() {
	c.in.Close()
	done := make(chan struct{})
	go func() { c.cmd.Wait(); close(done) }()
	select {
	case <-done:
	case <-time.After(2 * time.Second):
		c.cmd.Process.Kill()
	}
	os.RemoveAll(c.Dir)
}
