// Package cachekit drives reservoir's cache backends directly through their exported API
// (plus the verif-only synchronous cleanup cycle) for the cache-level state machines.
package cachekit

import (
	"bytes"
	"context"
	"errors"
	"fmt"
	"io"
	"os"
	"path/filepath"
	"reservoir/utils"
	"time"
	"verifharness/internal/metricsx"

	"reservoir/cache"
	"reservoir/config"
	"reservoir/metrics"
	"reservoir/utils/bytesize"
	"reservoir/utils/duration"
)

// Meta is the metadata type stored with every entry: which version it is.
type Meta struct {
	Key string `json:"key"`
	Ver int    `json:"ver"`
	Len int    `json:"len"`
}

// API is what both backends offer under the verif tag.
type API interface {
	cache.Cache[Meta]
	VerifRunCleanupCycle()
}

type Opts struct {
	Backend   string        `json:"backend"`
	Shards    int           `json:"shards"`
	MaxSize   int64         `json:"max_size"`
	Cleanup   time.Duration `json:"cleanup"`
	MemBudget int           `json:"mem_budget"`
}

type Kit struct {
	Opts   Opts
	Cfg    *config.Config
	C      API
	Dir    string
	cancel context.CancelFunc
}

func setBase[T comparable](p *config.ConfigProp[T], v T) {
	p.Stage(v)
	p.CommitStaged()
}

// New builds a cache. metrics.Global is reset first: one cache per process at a time.
func New(o Opts) *Kit {
	if o.Shards == 0 {
		o.Shards = 16
	}
	if o.MaxSize == 0 {
		o.MaxSize = 1 << 40
	}
	if o.Cleanup == 0 {
		o.Cleanup = time.Hour
	}
	if o.MemBudget == 0 {
		o.MemBudget = 50
	}
	dir, err := os.MkdirTemp("", "verif-ck-")
	if err != nil {
		panic(err)
	}
	k := &Kit{Opts: o, Dir: filepath.Join(dir, "cache")}
	k.Cfg = config.NewDefault()
	setBase(&k.Cfg.Cache.MaxCacheSize, bytesize.ByteSize(o.MaxSize))
	setBase(&k.Cfg.Cache.CleanupInterval, duration.Duration(o.Cleanup))
	setBase(&k.Cfg.Cache.LockShards, o.Shards)
	setBase(&k.Cfg.Cache.Memory.MemoryBudgetPercent, o.MemBudget)
	k.open()
	return k
}

func (k *Kit) open() {
	metricsx.Reset()
	ctx, cancel := context.WithCancel(context.Background())
	k.cancel = cancel
	o := k.Opts
	maxSize := k.Cfg.Cache.MaxCacheSize.Read().Bytes()
	if o.Backend == "file" {
		k.C = cache.NewFileCache[Meta](k.Cfg, k.Dir, maxSize, o.Cleanup, o.Shards, ctx)
	} else {
		k.C = cache.NewMemoryCache[Meta](k.Cfg, o.MemBudget, maxSize, o.Cleanup, o.Shards, ctx)
	}
}

// Restart abandons the cache without Destroy (as a crash would) and reopens the same directory.
func (k *Kit) Restart() {
	k.cancel()
	k.open()
}

func (k *Kit) Close() {
	k.C.Destroy()
	k.cancel()
	os.RemoveAll(filepath.Dir(k.Dir))
}

// SetLimit changes max_cache_size the way a run-time override does.
func (k *Kit) SetLimit(n int64) {
	if n < 1 {
		n = 1
	}
	// through the public update path, so that subscribers are notified as in production
	config.UpdatePartialFromConfig(k.Cfg, map[string]any{"cache": map[string]any{"max_cache_size": fmt.Sprintf("%dB", n)}})
}

// SameShard returns the smallest j > i whose key falls into the same lock shard as key i.
func SameShard(i, shards int) int {
	want := utils.Hex8ToIndex(Key(i).Hex) % uint32(shards)
	for j := i + 1; ; j++ {
		if utils.Hex8ToIndex(Key(j).Hex)%uint32(shards) == want {
			return j
		}
	}
}

// Key returns the cache key of universe member i.
func Key(i int) cache.CacheKey { return cache.FromString(fmt.Sprintf("verif-key-%d", i)) }

// Body is the content stored for (key i, version v, length n): offset-addressable.
func Body(i, v, n int) []byte {
	out := make([]byte, n)
	seed := uint32(i*7919 + v*104729 + 17)
	for j := range out {
		seed = seed*1664525 + 1013904223
		out[j] = byte('a' + (seed>>24)%26)
	}
	if n >= 12 {
		copy(out, fmt.Sprintf("[k%d v%d %d]", i, v, n))
	}
	return out
}

// FailingReader yields the first n bytes of data and then fails.
type FailingReader struct {
	Data []byte
	N    int
	off  int
}

var ErrInjected = errors.New("injected source failure")

func (f *FailingReader) Read(p []byte) (int, error) {
	if f.off >= f.N || f.off >= len(f.Data) {
		return 0, ErrInjected
	}
	lim := f.N
	if lim > len(f.Data) {
		lim = len(f.Data)
	}
	n := copy(p, f.Data[f.off:lim])
	f.off += n
	return n, nil
}

// Store stores version v of key i with the given length; failAfter >= 0 makes the source fail there.
func (k *Kit) Store(i, v, n int, expires time.Time, failAfter int) (*cache.Entry[Meta], error) {
	data := Body(i, v, n)
	var src io.Reader = bytes.NewReader(data)
	if failAfter >= 0 {
		src = &FailingReader{Data: data, N: failAfter}
	}
	return k.C.Cache(Key(i), src, expires, Meta{Key: fmt.Sprintf("k%d", i), Ver: v, Len: n})
}

// Actual is what the cache can really return, measured by Get over the key universe.
type Actual struct {
	Entries   int
	DataBytes int64 // sum of bytes actually readable
	MetaBytes int64 // sum of Metadata.Size
	PerKey    map[int]int64
	Vers      map[int]int
	Broken    []string // keys whose Get failed with something other than not-found, or whose data is inconsistent
}

func (k *Kit) Measure(universe int) Actual {
	a := Actual{PerKey: map[int]int64{}, Vers: map[int]int{}}
	for i := 0; i < universe; i++ {
		e, err := k.C.Get(Key(i))
		if err != nil {
			if !errors.Is(err, cache.ErrCacheEntryNotFound) {
				a.Broken = append(a.Broken, fmt.Sprintf("k%d: Get: %v", i, err))
			}
			continue
		}
		b, rerr := io.ReadAll(e.Data)
		e.Data.Close()
		if rerr != nil {
			a.Broken = append(a.Broken, fmt.Sprintf("k%d: read: %v", i, rerr))
		}
		a.Entries++
		a.DataBytes += int64(len(b))
		a.MetaBytes += e.Metadata.Size
		a.PerKey[i] = int64(len(b))
		a.Vers[i] = e.Metadata.Object.Ver
		want := Body(i, e.Metadata.Object.Ver, e.Metadata.Object.Len)
		if !bytes.Equal(b, want) {
			a.Broken = append(a.Broken, fmt.Sprintf("k%d: data (%d bytes) is not version %d (%d bytes)", i, len(b), e.Metadata.Object.Ver, len(want)))
		}
	}
	return a
}

// Dir listing of the file backend: regular files and their total size.
func (k *Kit) DirUsage() (files int, size int64, others []string) {
	ents, err := os.ReadDir(k.Dir)
	if err != nil {
		return 0, 0, []string{"readdir: " + err.Error()}
	}
	for _, e := range ents {
		info, err := e.Info()
		if err != nil {
			continue
		}
		if info.Mode().IsRegular() {
			files++
			size += info.Size()
		} else {
			others = append(others, e.Name())
		}
	}
	return
}

// Reported is what the cache says about itself.
func Reported() (bytes, entries int64) {
	return metrics.Global.Cache.BytesCached.Get(), metrics.Global.Cache.CacheEntries.Get()
}
