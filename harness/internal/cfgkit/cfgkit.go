// Package cfgkit reads every configuration property by reflection and generates valid
// configuration documents.
package cfgkit

import (
	"fmt"
	"reflect"
	"sort"
	"strings"
	"time"

	"pgregory.net/rapid"
	"reservoir/config"
)

// Vector reads every ConfigProp of cfg (by reflection, keyed by JSON path) into printable values.
func Vector(cfg *config.Config) map[string]string {
	out := map[string]string{}
	walk(reflect.ValueOf(cfg).Elem(), "", out)
	return out
}

func walk(v reflect.Value, prefix string, out map[string]string) {
	t := v.Type()
	for i := 0; i < v.NumField(); i++ {
		f := v.Field(i)
		tag := t.Field(i).Tag.Get("json")
		if tag == "" {
			continue
		}
		path := tag
		if prefix != "" {
			path = prefix + "." + tag
		}
		if f.Kind() != reflect.Struct {
			continue
		}
		if m := f.Addr().MethodByName("Read"); m.IsValid() {
			res := m.Call(nil)
			// numeric kinds are printed as numbers: String() methods (ByteSize!) may be lossy
			switch res[0].Kind() {
			case reflect.Int, reflect.Int8, reflect.Int16, reflect.Int32, reflect.Int64:
				out[path] = fmt.Sprintf("%d", res[0].Int())
			default:
				out[path] = fmt.Sprintf("%v", res[0].Interface())
			}
			continue
		}
		walk(f, path, out)
	}
}

func printed(v any) string {
	rv := reflect.ValueOf(v)
	switch rv.Kind() {
	case reflect.Int, reflect.Int8, reflect.Int16, reflect.Int32, reflect.Int64:
		return fmt.Sprintf("%d", rv.Int())
	}
	return fmt.Sprintf("%v", v)
}

func listen[T comparable](path string, p *config.ConfigProp[T], f func(path, value string)) {
	p.OnChange(func(v T) { f(path, printed(v)) })
}

// SubscribeAll registers a listener on every setting; values are printed the way Vector prints them.
// (What a component is told is what it runs with: listeners receive the value as an argument.)
func SubscribeAll(c *config.Config, f func(path, value string)) {
	listen("proxy.listen", &c.Proxy.Listen, f)
	listen("proxy.ca_cert", &c.Proxy.CaCert, f)
	listen("proxy.ca_key", &c.Proxy.CaKey, f)
	listen("proxy.upstream_default_https", &c.Proxy.UpstreamDefaultHttps, f)
	listen("proxy.retry_on_range_416", &c.Proxy.RetryOnRange416, f)
	listen("proxy.retry_on_invalid_range", &c.Proxy.RetryOnInvalidRange, f)
	listen("proxy.cache_policy.ignore_cache_control", &c.Proxy.CachePolicy.IgnoreCacheControl, f)
	listen("proxy.cache_policy.default_max_age", &c.Proxy.CachePolicy.DefaultMaxAge, f)
	listen("proxy.cache_policy.force_default_max_age", &c.Proxy.CachePolicy.ForceDefaultMaxAge, f)
	listen("webserver.listen", &c.Webserver.Listen, f)
	listen("webserver.dashboard_disabled", &c.Webserver.DashboardDisabled, f)
	listen("webserver.api_disabled", &c.Webserver.ApiDisabled, f)
	listen("cache.max_cache_size", &c.Cache.MaxCacheSize, f)
	listen("cache.type", &c.Cache.Type, f)
	listen("cache.cleanup_interval", &c.Cache.CleanupInterval, f)
	listen("cache.lock_shards", &c.Cache.LockShards, f)
	listen("cache.file.dir", &c.Cache.File.Dir, f)
	listen("cache.memory.memory_budget_percent", &c.Cache.Memory.MemoryBudgetPercent, f)
	listen("logging.level", &c.Logging.Level, f)
	listen("logging.file", &c.Logging.File, f)
	listen("logging.max_size", &c.Logging.MaxSize, f)
	listen("logging.max_backups", &c.Logging.MaxBackups, f)
	listen("logging.compress", &c.Logging.Compress, f)
	listen("logging.to_stdout", &c.Logging.ToStdout, f)
}

// Diff lists the paths whose values differ.
func Diff(a, b map[string]string) []string {
	var out []string
	for k, va := range a {
		if vb, ok := b[k]; !ok || va != vb {
			out = append(out, fmt.Sprintf("%s: %q -> %q", k, va, b[k]))
		}
	}
	for k := range b {
		if _, ok := a[k]; !ok {
			out = append(out, k+": only after")
		}
	}
	sort.Strings(out)
	return out
}

// Doc is a nested update document.
type Doc = map[string]any

func set(d Doc, path string, v any) {
	parts := strings.Split(path, ".")
	for _, p := range parts[:len(parts)-1] {
		nd, ok := d[p].(Doc)
		if !ok {
			nd = Doc{}
			d[p] = nd
		}
		d = nd
	}
	d[parts[len(parts)-1]] = v
}

var byteCounts = []int64{1, 2, 1000, 1023, 1024, 1025, 1536, 4096, 1<<20 - 1, 1 << 20, 1<<20 + 1, 3 << 20, 5<<30 + 7, 1 << 40, 1<<40 + 1<<20, 1<<62 + 1, 9223372036854775807}
var durations = []string{"1ns", "1ms", "1.5s", "90m", "1h0m0.000000001s", "2562047h47m16.854775807s", "1h", "36h", "250ms", "1m1s"}
var levels = []string{"DEBUG", "INFO", "WARN", "ERROR", "DEBUG-4", "INFO+2", "ERROR+8"}

// Paths of every setting with a generator of valid values (JSON form).
var Valid = map[string]func(t *rapid.T) any{
	"proxy.listen": func(t *rapid.T) any {
		return rapid.SampledFrom([]string{":9999", "127.0.0.1:1", "[::1]:8080", "localhost:80"}).Draw(t, "v")
	},
	"proxy.ca_cert": func(t *rapid.T) any {
		return rapid.SampledFrom([]string{"ssl/ca.crt", "/x/y z.crt", "ä.crt"}).Draw(t, "v")
	},
	"proxy.ca_key":                             func(t *rapid.T) any { return rapid.SampledFrom([]string{"ssl/ca.key", "k"}).Draw(t, "v") },
	"proxy.upstream_default_https":             func(t *rapid.T) any { return rapid.Bool().Draw(t, "v") },
	"proxy.retry_on_range_416":                 func(t *rapid.T) any { return rapid.Bool().Draw(t, "v") },
	"proxy.retry_on_invalid_range":             func(t *rapid.T) any { return rapid.Bool().Draw(t, "v") },
	"proxy.cache_policy.ignore_cache_control":  func(t *rapid.T) any { return rapid.Bool().Draw(t, "v") },
	"proxy.cache_policy.default_max_age":       drawDuration,
	"proxy.cache_policy.force_default_max_age": func(t *rapid.T) any { return rapid.Bool().Draw(t, "v") },
	"webserver.listen":                         func(t *rapid.T) any { return rapid.SampledFrom([]string{"localhost:8080", ":1"}).Draw(t, "v") },
	"webserver.dashboard_disabled":             func(t *rapid.T) any { return rapid.Bool().Draw(t, "v") },
	// the API may only be disabled together with the dashboard (main.go refuses to start otherwise), so a value
	// that is valid on its own is false; the coherent pair is exercised explicitly by C18
	"webserver.api_disabled":             func(t *rapid.T) any { return false },
	"cache.max_cache_size":               func(t *rapid.T) any { return drawBytes(t) },
	"cache.type":                         func(t *rapid.T) any { return rapid.SampledFrom([]string{"memory", "file"}).Draw(t, "v") },
	"cache.cleanup_interval":             drawDuration,
	"cache.lock_shards":                  func(t *rapid.T) any { return rapid.SampledFrom([]int{1, 2, 3, 64, 1024, 65536}).Draw(t, "v") },
	"cache.file.dir":                     func(t *rapid.T) any { return rapid.SampledFrom([]string{"var/cache/", "c", "/tmp/x y/"}).Draw(t, "v") },
	"cache.memory.memory_budget_percent": func(t *rapid.T) any { return rapid.SampledFrom([]int{1, 50, 75, 100}).Draw(t, "v") },
	"logging.level":                      func(t *rapid.T) any { return rapid.SampledFrom(levels).Draw(t, "v") },
	"logging.file":                       func(t *rapid.T) any { return rapid.SampledFrom([]string{"var/proxy.log", "", "l.log"}).Draw(t, "v") },
	"logging.max_size":                   func(t *rapid.T) any { return drawBytes(t) },
	"logging.max_backups":                func(t *rapid.T) any { return rapid.SampledFrom([]int{0, 1, 3, 100}).Draw(t, "v") },
	"logging.compress":                   func(t *rapid.T) any { return rapid.Bool().Draw(t, "v") },
	"logging.to_stdout":                  func(t *rapid.T) any { return false },
}

// drawDuration: one of the fixed boundary spellings, or a duration composed of hours, minutes, seconds and a
// fraction, spelled the way Go prints it, in whole seconds or in whole minutes.
func drawDuration(t *rapid.T) any {
	if rapid.IntRange(0, 2).Draw(t, "fixed-duration") == 0 {
		return rapid.SampledFrom(durations).Draw(t, "v")
	}
	d := time.Duration(rapid.SampledFrom([]int{0, 0, 0, 1, 2, 36}).Draw(t, "h"))*time.Hour +
		time.Duration(rapid.IntRange(0, 59).Draw(t, "m"))*time.Minute +
		time.Duration(rapid.IntRange(0, 59).Draw(t, "s"))*time.Second +
		time.Duration(rapid.SampledFrom([]int{0, 0, 0, 1, 250e6, 500e6}).Draw(t, "frac"))
	if d <= 0 {
		d = 10 * time.Second
	}
	switch rapid.IntRange(0, 3).Draw(t, "spelling") {
	case 0:
		if d%time.Second == 0 {
			return fmt.Sprintf("%ds", d/time.Second)
		}
	case 1:
		if d%time.Minute == 0 {
			return fmt.Sprintf("%dm", d/time.Minute)
		}
	}
	return d.String()
}

func drawBytes(t *rapid.T) any {
	n := rapid.SampledFrom(byteCounts).Draw(t, "bytes")
	if rapid.IntRange(0, 2).Draw(t, "rand") == 0 {
		n = rapid.Int64Range(1, 1<<50).Draw(t, "bytes-n")
	}
	// the documented digits-plus-unit form; exact multiples are sometimes written with their unit
	switch {
	case n%(1<<30) == 0 && rapid.Bool().Draw(t, "unit"):
		return fmt.Sprintf("%dG", n>>30)
	case n%(1<<20) == 0 && rapid.Bool().Draw(t, "unit"):
		return fmt.Sprintf("%dM", n>>20)
	case n%(1<<10) == 0 && rapid.Bool().Draw(t, "unit"):
		return fmt.Sprintf("%dK", n>>10)
	}
	return fmt.Sprintf("%dB", n)
}

// Paths returns all setting paths, sorted.
func Paths() []string {
	var ps []string
	for p := range Valid {
		ps = append(ps, p)
	}
	sort.Strings(ps)
	return ps
}

// DrawDoc draws an update document addressing the given fraction of settings.
func DrawDoc(t *rapid.T, all bool) (Doc, []string) {
	d := Doc{}
	var touched []string
	for _, p := range Paths() {
		if all || rapid.IntRange(0, 4).Draw(t, "pick") == 0 {
			set(d, p, Valid[p](t))
			touched = append(touched, p)
		}
	}
	return d, touched
}

// Set is exported for checks that build documents by hand.
func Set(d Doc, path string, v any) { set(d, path, v) }
