package origin

import (
	"fmt"
	"net/http"
	"strconv"
	"strings"
	"sync"
	"sync/atomic"
	"time"

	"verifharness/internal/ref"
)

// HV is one header field.
type HV struct {
	K string `json:"k"`
	V string `json:"v"`
}

// Version is one scripted version of a resource.
type Version struct {
	Ver         int    `json:"ver"`
	Len         int    `json:"len"`
	ETag        string `json:"etag,omitempty"`     // full field value incl. quotes / W/ ; "" = none
	LastMod     string `json:"last_mod,omitempty"` // http.TimeFormat; "" = none
	Headers     []HV   `json:"headers,omitempty"`  // freshness + extra end-to-end headers, in order
	ContentType string `json:"content_type,omitempty"`
	Status      int    `json:"status,omitempty"` // default 200
	Chunked     bool   `json:"chunked,omitempty"`
	HonorRange  bool   `json:"honor_range,omitempty"`
	Nonce       bool   `json:"nonce,omitempty"`       // body embeds a per-response nonce (uncacheable bodies)
	NoCond      bool   `json:"no_cond,omitempty"`     // ignore conditional request headers (always full answer)
	CondStatus  int    `json:"cond_status,omitempty"` // answer conditional requests with this status instead (e.g. 500)
	AbortAfter  int    `json:"abort_after,omitempty"` // >0: close the connection after this many body bytes
	Bare416     bool   `json:"bare_416,omitempty"`    // a 416 carries none of Headers (freshness belongs to the representation, not to the refusal)
	SlowMs      int    `json:"slow_ms,omitempty"`     // >0: pause this long in the middle of the body (a transfer that takes time)
	Raw304      []HV   `json:"raw_304,omitempty"`     // a 304 is written by hand and carries these extra fields (net/http strips Content-Length/Content-Type from its own 304s; real origins send them)
}

// Site serves resources by path; each path has a current Version that the harness can bump.
type Site struct {
	mu    sync.Mutex
	res   map[string]*Version
	id    map[string]string
	nonce atomic.Int64
	Gate  func(r *http.Request) // optional: called before answering (hold / observe)
}

func NewSite() *Site { return &Site{res: map[string]*Version{}, id: map[string]string{}} }

// Set installs v as the current version of path (resource id = id).
func (s *Site) Set(path, id string, v Version) {
	s.mu.Lock()
	defer s.mu.Unlock()
	vv := v
	s.res[path] = &vv
	s.id[path] = id
}

func (s *Site) Get(path string) (string, Version, bool) {
	s.mu.Lock()
	defer s.mu.Unlock()
	v, ok := s.res[path]
	if !ok {
		return "", Version{}, false
	}
	return s.id[path], *v, true
}

// BodyOf is the body the site serves for (id, v) (without nonce).
func BodyOf(id string, v Version) []byte { return Content(id, v.Ver, v.Len) }

func etagMatch(list, etag string) bool {
	if etag == "" {
		return false
	}
	strip := func(s string) string { return strings.TrimPrefix(strings.TrimSpace(s), "W/") }
	for _, part := range strings.Split(list, ",") {
		p := strings.TrimSpace(part)
		if p == "*" || strip(p) == strip(etag) {
			return true
		}
	}
	return false
}

// Handler is the origin.Handler of the site.
func (s *Site) Handler() Handler {
	return func(w http.ResponseWriter, r *http.Request, _ []byte, e *Entry) {
		if s.Gate != nil {
			s.Gate(r)
		}
		id, v, ok := s.Get(r.URL.Path)
		if !ok {
			e.Status = 404
			http.Error(w, "no such resource", 404)
			return
		}
		e.Ver = v.Ver
		status := v.Status
		if status == 0 {
			status = 200
		}
		h := w.Header()
		h["Date"] = []string{time.Now().UTC().Format(http.TimeFormat)}
		for _, hv := range v.Headers {
			if http.CanonicalHeaderKey(hv.K) == "Date" {
				h["Date"] = []string{hv.V} // the version's own generation date replaces the clock's
				continue
			}
			h.Add(hv.K, hv.V)
		}
		if v.ETag != "" {
			h.Set("ETag", v.ETag)
		}
		if v.LastMod != "" {
			h.Set("Last-Modified", v.LastMod)
		}
		if v.ContentType != "" {
			h.Set("Content-Type", v.ContentType)
		} else {
			h.Set("Content-Type", "application/octet-stream")
		}
		// conditional requests
		inm, ims := r.Header.Get("If-None-Match"), r.Header.Get("If-Modified-Since")
		if (inm != "" || ims != "") && v.CondStatus != 0 {
			e.Status = v.CondStatus
			h.Del("ETag")
			h.Del("Last-Modified")
			http.Error(w, fmt.Sprintf("scripted %d", v.CondStatus), v.CondStatus)
			return
		}
		if !v.NoCond && status == 200 && (r.Method == "GET" || r.Method == "HEAD") {
			notMod := false
			if inm != "" {
				notMod = etagMatch(inm, v.ETag)
			} else if ims != "" && v.LastMod != "" {
				if t, err := http.ParseTime(ims); err == nil {
					if lm, err2 := http.ParseTime(v.LastMod); err2 == nil && !lm.After(t) {
						notMod = true
					}
				}
			}
			if notMod {
				e.Status = 304
				if hj, ok := w.(http.Hijacker); ok && len(v.Raw304) > 0 {
					if conn, bw, err := hj.Hijack(); err == nil {
						e.Commit()
						fmt.Fprintf(bw, "HTTP/1.1 304 Not Modified\r\nDate: %s\r\n", time.Now().UTC().Format(http.TimeFormat))
						for _, k := range []string{"Etag", "Last-Modified"} {
							if hasKey(v.Raw304, k) {
								continue // the hand-written 304 brings its own
							}
							if vs := h[k]; len(vs) > 0 {
								fmt.Fprintf(bw, "%s: %s\r\n", k, vs[0])
							}
						}
						for _, hv := range v.Raw304 {
							fmt.Fprintf(bw, "%s: %s\r\n", hv.K, hv.V)
						}
						fmt.Fprintf(bw, "Connection: close\r\n\r\n")
						bw.Flush()
						conn.Close()
						return
					}
				}
				w.WriteHeader(304)
				return
			}
		}
		body := BodyOf(id, v)
		if v.Nonce {
			n := s.nonce.Add(1)
			e.Nonce = fmt.Sprintf("nonce-%d", n)
			e.Commit()
			body = append([]byte(e.Nonce+"\n"), body...)
		}
		if v.HonorRange && status == 200 && r.Header.Get("Range") != "" && r.Method == "GET" {
			apply := true
			if ir := r.Header.Get("If-Range"); ir != "" {
				apply = false
				if strings.HasPrefix(ir, "\"") {
					apply = ir == v.ETag
				} else if t, err := http.ParseTime(ir); err == nil && v.LastMod != "" {
					lm, _ := http.ParseTime(v.LastMod)
					apply = lm.Equal(t)
				}
			}
			if apply {
				rv := ref.Range(r.Header.Get("Range"), int64(len(body)))
				switch rv.Kind {
				case ref.RangeExact, ref.RangeClamp:
					h.Set("Content-Range", fmt.Sprintf("bytes %d-%d/%d", rv.Start, rv.End, len(body)))
					h.Set("Content-Length", strconv.Itoa(int(rv.End-rv.Start+1)))
					e.Status = 206
					w.WriteHeader(206)
					w.Write(body[rv.Start : rv.End+1])
					return
				case ref.RangeRefuse:
					if rv.Shape != "multi" && rv.Shape != "other-unit" && rv.Shape != "no-equals" && rv.Shape != "last<first" {
						if v.Bare416 {
							// a range refusal says nothing about how long the representation may be kept
							for _, hv := range v.Headers {
								h.Del(hv.K)
							}
						}
						h.Set("Content-Range", fmt.Sprintf("bytes */%d", len(body)))
						e.Status = 416
						http.Error(w, "range not satisfiable", 416)
						return
					}
				}
			}
		}
		e.Status = status
		e.Commit()
		if !v.Chunked {
			h.Set("Content-Length", strconv.Itoa(len(body)))
		}
		w.WriteHeader(status)
		if r.Method == "HEAD" {
			return
		}
		if v.AbortAfter > 0 && v.AbortAfter < len(body) {
			w.Write(body[:v.AbortAfter])
			if f, ok := w.(http.Flusher); ok {
				f.Flush()
			}
			panic(http.ErrAbortHandler)
		}
		if v.SlowMs > 0 && !v.Chunked && len(body) > 1 {
			w.Write(body[:len(body)/2])
			if f, ok := w.(http.Flusher); ok {
				f.Flush()
			}
			time.Sleep(time.Duration(v.SlowMs) * time.Millisecond)
			w.Write(body[len(body)/2:])
			return
		}
		if v.Chunked {
			// force chunked framing: write in pieces with flushes and no Content-Length
			f, _ := w.(http.Flusher)
			for off := 0; off < len(body); {
				n := 1000
				if off+n > len(body) {
					n = len(body) - off
				}
				w.Write(body[off : off+n])
				if f != nil {
					f.Flush()
				}
				off += n
			}
			if len(body) == 0 && f != nil {
				f.Flush()
			}
			return
		}
		w.Write(body)
	}
}

func hasKey(hs []HV, k string) bool {
	for _, h := range hs {
		if http.CanonicalHeaderKey(h.K) == k {
			return true
		}
	}
	return false
}
