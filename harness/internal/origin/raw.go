package origin

import (
	"bufio"
	"fmt"
	"io"
	"net"
	"net/http"
	"strings"
	"sync"
	"time"
	"verifharness/internal/netx"
)

// RawResponse is written to the wire exactly as given: header fields in this order and
// spelling, then the body framed by Content-Length (added by the origin) or chunked.
type RawResponse struct {
	Status  int
	Reason  string
	Headers []HV
	Body    []byte
	Chunked bool
	NoBody  bool   // HEAD / 204 / 304: headers only (Content-Length is still announced unless Chunked)
	NoCL    bool   // do not add a Content-Length header (204, 304)
	Close   bool   // close the connection after the response
	Raw     []byte // if set: written verbatim instead of everything above, then the connection is closed
}

// RawOrigin is a socket-level HTTP/1.1 origin: requests are parsed with net/http's reader,
// responses are byte-exact.
type RawOrigin struct {
	ln      net.Listener
	mu      sync.Mutex
	log     []*Entry
	seq     int
	handler func(r *http.Request, body []byte, e *Entry) RawResponse
	wg      sync.WaitGroup
	conns   map[net.Conn]struct{}
	closed  bool
}

func NewRaw(h func(r *http.Request, body []byte, e *Entry) RawResponse) *RawOrigin {
	ln := netx.Listen()
	o := &RawOrigin{ln: ln, handler: h, conns: map[net.Conn]struct{}{}}
	o.wg.Add(1)
	go func() {
		defer o.wg.Done()
		for {
			c, err := ln.Accept()
			if err != nil {
				return
			}
			o.mu.Lock()
			if o.closed {
				o.mu.Unlock()
				c.Close()
				return
			}
			o.conns[c] = struct{}{}
			o.mu.Unlock()
			o.wg.Add(1)
			go o.serve(c)
		}
	}()
	return o
}

func (o *RawOrigin) serve(c net.Conn) {
	defer o.wg.Done()
	defer func() {
		c.Close()
		o.mu.Lock()
		delete(o.conns, c)
		o.mu.Unlock()
	}()
	br := bufio.NewReader(c)
	for {
		c.SetReadDeadline(time.Now().Add(30 * time.Second))
		r, err := http.ReadRequest(br)
		if err != nil {
			return
		}
		body, _ := io.ReadAll(r.Body)
		o.mu.Lock()
		o.seq++
		e := &Entry{Seq: o.seq, T0: time.Now(), Method: r.Method, Target: r.RequestURI, Host: r.Host, Proto: r.Proto,
			Header: r.Header.Clone(), Body: body, ReqID: r.Header.Get("X-Verif-Req")}
		o.log = append(o.log, e)
		o.mu.Unlock()
		var st Entry
		resp := o.handler(r, body, &st)
		o.mu.Lock()
		e.Status, e.Ver, e.Nonce = resp.Status, st.Ver, st.Nonce
		o.mu.Unlock()
		c.SetWriteDeadline(time.Now().Add(30 * time.Second))
		if resp.Raw != nil {
			c.Write(resp.Raw)
			return
		}
		var b strings.Builder
		reason := resp.Reason
		if reason == "" {
			reason = http.StatusText(resp.Status)
		}
		fmt.Fprintf(&b, "HTTP/1.1 %d %s\r\n", resp.Status, reason)
		for _, h := range resp.Headers {
			fmt.Fprintf(&b, "%s: %s\r\n", h.K, h.V)
		}
		if resp.Chunked {
			b.WriteString("Transfer-Encoding: chunked\r\n")
		} else if !resp.NoCL {
			fmt.Fprintf(&b, "Content-Length: %d\r\n", len(resp.Body))
		}
		b.WriteString("\r\n")
		w := bufio.NewWriter(c)
		w.WriteString(b.String())
		if !resp.NoBody {
			if resp.Chunked {
				body := resp.Body
				for len(body) > 0 {
					n := 900
					if n > len(body) {
						n = len(body)
					}
					fmt.Fprintf(w, "%x\r\n", n)
					w.Write(body[:n])
					w.WriteString("\r\n")
					body = body[n:]
				}
				w.WriteString("0\r\n\r\n")
			} else {
				w.Write(resp.Body)
			}
		}
		if w.Flush() != nil {
			return
		}
		o.mu.Lock()
		e.T1 = time.Now()
		o.mu.Unlock()
		if resp.Close || r.Close {
			return
		}
	}
}

func (o *RawOrigin) Addr() string { return o.ln.Addr().String() }

func (o *RawOrigin) Len() int {
	o.mu.Lock()
	defer o.mu.Unlock()
	return len(o.log)
}

func (o *RawOrigin) Since(seq int) []Entry {
	o.mu.Lock()
	defer o.mu.Unlock()
	var out []Entry
	for _, e := range o.log {
		if e.Seq > seq {
			out = append(out, *e)
		}
	}
	return out
}

func (o *RawOrigin) Log() []Entry { return o.Since(0) }

func (o *RawOrigin) Close() {
	o.mu.Lock()
	o.closed = true
	for c := range o.conns {
		c.Close()
	}
	o.mu.Unlock()
	o.ln.Close()
	o.wg.Wait()
}
