// Package origin is the scriptable, self-describing origin server used by the
// end-to-end checks. Bodies are a pure function of (resource id, version, length), so a
// client can decide for every byte range it receives which version it belongs to - or
// that it belongs to none. Every request the origin sees is logged.
package origin

import (
	"crypto/sha256"
	"encoding/hex"
	"fmt"
	"io"
	"log"
	"net"
	"net/http"
	"net/http/httptest"
	"sync"
	"time"
	"verifharness/internal/netx"
)

// Content returns the first n bytes of the deterministic stream of (id, ver).
func Content(id string, ver int, n int) []byte {
	out := make([]byte, 0, n+64)
	head := fmt.Sprintf("RSV id=%s ver=%d len=%d\n", id, ver, n)
	out = append(out, head...)
	for k := 0; len(out) < n; k++ {
		sum := sha256.Sum256([]byte(fmt.Sprintf("%s|%d|%d", id, ver, k)))
		out = append(out, hex.EncodeToString(sum[:])...)
		out = append(out, '\n')
	}
	return out[:n]
}

// Entry is one request as the origin saw it.
type Entry struct {
	Seq     int
	T0, T1  time.Time // receipt / response written
	Method  string
	Target  string // raw request-target as received
	Host    string
	Proto   string
	Header  http.Header
	Body    []byte
	ReqID   string // X-Verif-Req correlation header, if any
	Status  int    // status the handler answered with
	Ver     int    // version the handler served (0 if n/a)
	Nonce   string
	Aborted bool

	commit func(*Entry)
}

// Commit publishes Status/Ver/Nonce to the log right away. Handlers call it before they start
// writing a body, so that a reader of the log never sees a half-described entry for a response
// whose transfer is still in progress (or was abandoned by the proxy).
func (e *Entry) Commit() {
	if e.commit != nil {
		e.commit(e)
	}
}

// Handler answers one request. It fills e.Status / e.Ver for the log.
type Handler func(w http.ResponseWriter, r *http.Request, body []byte, e *Entry)

type Origin struct {
	Srv *httptest.Server

	mu      sync.Mutex
	log     []*Entry
	handler Handler
	seq     int
}

// New starts an origin with the given handler.
func New(h Handler) *Origin {
	o := &Origin{handler: h}
	o.Srv = netx.Server(http.HandlerFunc(o.serve))
	o.Srv.Config.ErrorLog = log.New(io.Discard, "", 0)
	o.Srv.Start()
	return o
}

func (o *Origin) SetHandler(h Handler) {
	o.mu.Lock()
	o.handler = h
	o.mu.Unlock()
}

func (o *Origin) serve(w http.ResponseWriter, r *http.Request) {
	body, _ := io.ReadAll(r.Body)
	o.mu.Lock()
	o.seq++
	e := &Entry{Seq: o.seq, T0: time.Now(), Method: r.Method, Target: r.RequestURI, Host: r.Host, Proto: r.Proto,
		Header: r.Header.Clone(), Body: body, ReqID: r.Header.Get("X-Verif-Req")}
	o.log = append(o.log, e)
	h := o.handler
	o.mu.Unlock()
	defer func() {
		if rec := recover(); rec != nil {
			if rec == http.ErrAbortHandler {
				o.mu.Lock()
				e.Aborted = true
				e.T1 = time.Now()
				o.mu.Unlock()
				panic(rec)
			}
			panic(rec)
		}
	}()
	var st Entry
	st.commit = func(s *Entry) {
		o.mu.Lock()
		e.Status, e.Ver, e.Nonce = s.Status, s.Ver, s.Nonce
		o.mu.Unlock()
	}
	h(w, r, body, &st)
	o.mu.Lock()
	e.Status, e.Ver, e.Nonce = st.Status, st.Ver, st.Nonce
	e.T1 = time.Now()
	o.mu.Unlock()
}

// Addr is host:port of the origin.
func (o *Origin) Addr() string { return o.Srv.Listener.Addr().String() }

func (o *Origin) Port() string {
	_, p, _ := net.SplitHostPort(o.Addr())
	return p
}

// Log returns a snapshot copy of the request log.
func (o *Origin) Log() []Entry {
	o.mu.Lock()
	defer o.mu.Unlock()
	out := make([]Entry, len(o.log))
	for i, e := range o.log {
		out[i] = *e
	}
	return out
}

// Len is the number of requests seen so far.
func (o *Origin) Len() int {
	o.mu.Lock()
	defer o.mu.Unlock()
	return len(o.log)
}

// Since returns the entries with Seq > seq.
func (o *Origin) Since(seq int) []Entry {
	o.mu.Lock()
	defer o.mu.Unlock()
	var out []Entry
	for _, e := range o.log {
		if e.Seq > seq {
			out = append(out, *e)
		}
	}
	return out
}

// ByReqID returns the entries carrying the given correlation id.
func (o *Origin) ByReqID(id string) []Entry {
	o.mu.Lock()
	defer o.mu.Unlock()
	var out []Entry
	for _, e := range o.log {
		if e.ReqID == id {
			out = append(out, *e)
		}
	}
	return out
}

func (o *Origin) Close() {
	o.Srv.CloseClientConnections()
	o.Srv.Close()
}
