package ref

import (
	"net/url"
	"strings"
)

// NormPath removes dot-segments (RFC 3986 section 5.2.4) and collapses duplicate slashes.
// A trailing slash is preserved.
func NormPath(p string) string {
	if p == "" {
		return ""
	}
	trailing := strings.HasSuffix(p, "/") || strings.HasSuffix(p, "/.") || strings.HasSuffix(p, "/..")
	var out []string
	for _, seg := range strings.Split(p, "/") {
		switch seg {
		case "", ".":
		case "..":
			if len(out) > 0 {
				out = out[:len(out)-1]
			}
		default:
			out = append(out, seg)
		}
	}
	res := "/" + strings.Join(out, "/")
	if trailing && res != "/" {
		res += "/"
	}
	return res
}

// Target is the wire-level identity of a request as the property names it.
type Target struct {
	Method string `json:"method"`
	Host   string `json:"host"`
	Path   string `json:"path"`  // raw
	Query  string `json:"query"` // raw, without "?"
	HasQ   bool   `json:"has_q"` // a "?" is present
}

func decodeAll(s string) string {
	if d, err := url.PathUnescape(s); err == nil {
		return d
	}
	return s
}

// SameResource is the C02 verdict for a pair of requests.
//
// Paths are compared in a canonical form: escapes of unreserved characters undone, escapes of reserved
// characters kept opaque (an escaped slash is not a separator, an escaped dot pair that stays escaped is
// not a dot-segment), then dot-segments and duplicate slashes removed with the trailing slash preserved.
func SameResource(a, b Target) (Tri, string) {
	if a.Method != b.Method {
		return MustNot, "method"
	}
	if !strings.EqualFold(a.Host, b.Host) {
		return MustNot, "host"
	}
	if a.Query != b.Query {
		return MustNot, "query"
	}
	ca, cb := NormPath(decodeUnreserved(a.Path)), NormPath(decodeUnreserved(b.Path))
	// net/url keeps the raw spelling of a path only when it is a valid encoding; with a byte like "|" or a
	// space in it the whole path is re-encoded from its decoded form, the proxy forwards that, and an escaped
	// reserved character in the same path loses its escaping on the way: no verdict for such pairs (the same
	// domain restriction as in C08)
	mangled := (hasInvalidRaw(a.Path) || hasInvalidRaw(b.Path)) && (hasEscapedReserved(a.Path) || hasEscapedReserved(b.Path))
	if ca != cb {
		if mangled {
			return Either, "encoded-reserved+invalid-raw-byte"
		}
		if strings.TrimSuffix(ca, "/") == strings.TrimSuffix(cb, "/") && ca != "" && cb != "" {
			return MustNot, "trailing-slash"
		}
		if (ca == "" && cb == "/") || (ca == "/" && cb == "") {
			return Either, "empty-path"
		}
		if NormPath(decodeAll(a.Path)) == NormPath(decodeAll(b.Path)) {
			return MustNot, "encoded-reserved"
		}
		return MustNot, "path"
	}
	if a.HasQ != b.HasQ {
		return Either, "empty-query"
	}
	if mangled {
		return Either, "encoded-reserved+invalid-raw-byte"
	}
	if NormPath(a.Path) == NormPath(b.Path) {
		switch {
		case a.Host != b.Host:
			return Must, "host-case"
		case a.Path != b.Path:
			return Must, "dot-segments-or-slashes"
		default:
			return Must, "identical"
		}
	}
	return Either, "percent-encoding"
}

// decodeUnreserved decodes the escapes of non-reserved bytes only (see CanonTarget).
func decodeUnreserved(s string) string { return CanonTarget(s) }

func hasEscapedReserved(p string) bool {
	return strings.Contains(CanonTarget(p), "%")
}

func hasInvalidRaw(p string) bool {
	for i := 0; i < len(p); i++ {
		c := p[i]
		switch {
		case c >= 'a' && c <= 'z', c >= 'A' && c <= 'Z', c >= '0' && c <= '9':
		case strings.IndexByte("-._~!$&'()*+,;=:@/[]%", c) >= 0:
		default:
			return true
		}
	}
	// a "%" that does not start a valid escape also makes net/url give up on the raw form
	for i := 0; i < len(p); i++ {
		if p[i] == '%' && (i+2 >= len(p) || unhex(p[i+1]) < 0 || unhex(p[i+2]) < 0) {
			return true
		}
	}
	return false
}
