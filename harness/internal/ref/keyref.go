package ref

import (
	"net/url"
	"strings"
)

// NormPath removes dot-segments (RFC 3986 section 5.2.4) and collapses duplicate slashes.
// A trailing slash is preserved.
func NormPath(p string) string {
	if p == "" {
		return ""
	}
	trailing := strings.HasSuffix(p, "/") || strings.HasSuffix(p, "/.") || strings.HasSuffix(p, "/..")
	var out []string
	for _, seg := range strings.Split(p, "/") {
		switch seg {
		case "", ".":
		case "..":
			if len(out) > 0 {
				out = out[:len(out)-1]
			}
		default:
			out = append(out, seg)
		}
	}
	res := "/" + strings.Join(out, "/")
	if trailing && res != "/" {
		res += "/"
	}
	return res
}

// Target is the wire-level identity of a request as the property names it.
type Target struct {
	Method string `json:"method"`
	Host   string `json:"host"`
	Path   string `json:"path"`  // raw
	Query  string `json:"query"` // raw, without "?"
	HasQ   bool   `json:"has_q"` // a "?" is present
}

func decodeAll(s string) string {
	if d, err := url.PathUnescape(s); err == nil {
		return d
	}
	return s
}

// SameResource is the C02 verdict for a pair of requests.
func SameResource(a, b Target) (Tri, string) {
	if a.Method != b.Method {
		return MustNot, "method"
	}
	if !strings.EqualFold(a.Host, b.Host) {
		return MustNot, "host"
	}
	if a.Query != b.Query {
		return MustNot, "query"
	}
	da, db := NormPath(decodeAll(a.Path)), NormPath(decodeAll(b.Path))
	if da != db {
		if strings.TrimSuffix(da, "/") == strings.TrimSuffix(db, "/") && da != "" && db != "" {
			return MustNot, "trailing-slash"
		}
		if da == "" || db == "" {
			if (da == "" && db == "/") || (da == "/" && db == "") {
				return Either, "empty-path"
			}
		}
		return MustNot, "path"
	}
	if a.HasQ != b.HasQ {
		return Either, "empty-query"
	}
	if NormPath(a.Path) == NormPath(b.Path) {
		switch {
		case a.Host != b.Host:
			return Must, "host-case"
		case a.Path != b.Path:
			return Must, "dot-segments-or-slashes"
		default:
			return Must, "identical"
		}
	}
	return Either, "percent-encoding"
}
