package ref

import (
	"math/big"
	"net/http"
	"regexp"
	"strings"
	"time"
)

// Tri is a three-valued verdict.
type Tri string

const (
	Must    Tri = "must"
	MustNot Tri = "must-not"
	Either  Tri = "either"
)

// Freshness is the reference reading of the freshness headers of one response.
type Freshness struct {
	Forbids      bool   // no-store / no-cache / private (unqualified) in any Cache-Control line, any letter case
	ForbidsMaybe bool   // qualified forms: no-cache="x", private="x"
	HasCC        bool   // at least one Cache-Control line with at least one directive
	MaxAge       string // "none" | "zero" | "positive" | "overflow" | "malformed" | "conflict"
	MaxAgeSecs   int64  // for "positive"
	Expires      string // "none" | "future" | "past" | "unparseable" | "otherformat-future" | "otherformat-past" | "multi"
	ExpiresAt    time.Time
	Shape        string
}

var reDigits = regexp.MustCompile(`^[0-9]+$`)

func splitDirectives(line string) []string {
	var out []string
	var cur strings.Builder
	inQ := false
	for i := 0; i < len(line); i++ {
		c := line[i]
		switch {
		case c == '"':
			inQ = !inQ
			cur.WriteByte(c)
		case c == '\\' && inQ && i+1 < len(line):
			cur.WriteByte(c)
			i++
			cur.WriteByte(line[i])
		case c == ',' && !inQ:
			out = append(out, cur.String())
			cur.Reset()
		default:
			cur.WriteByte(c)
		}
	}
	out = append(out, cur.String())
	return out
}

// ReadFreshness interprets Cache-Control and Expires lines per RFC 9111 and the property text.
func ReadFreshness(ccLines, expLines []string, now time.Time) Freshness {
	f := Freshness{MaxAge: "none", Expires: "none"}
	var shapes []string
	var ages []string
	for _, line := range ccLines {
		f.HasCC = true // a Cache-Control line without directives is still "a Cache-Control": left open
		for _, d := range splitDirectives(line) {
			d = strings.Trim(d, " \t")
			if d == "" {
				continue
			}
			f.HasCC = true
			name, val, hasVal := d, "", false
			if i := strings.IndexByte(d, '='); i >= 0 {
				name, val, hasVal = strings.Trim(d[:i], " \t"), strings.Trim(d[i+1:], " \t"), true
			}
			lname := strings.ToLower(name)
			if lname != name {
				shapes = append(shapes, "mixed-case")
			}
			switch lname {
			case "no-store":
				f.Forbids = true
			case "no-cache", "private":
				if hasVal && val != "" {
					f.ForbidsMaybe = true
				} else {
					f.Forbids = true
				}
			case "max-age":
				if !hasVal {
					ages = append(ages, "malformed")
				} else {
					ages = append(ages, val)
				}
				if hasVal && d != name+"="+val {
					// whitespace around "=" is not in the grammar: reading it or not are both acceptable
					ages[len(ages)-1] = "malformed"
					shapes = append(shapes, "spaced-max-age")
				}
			}
		}
	}
	if len(ccLines) > 1 {
		shapes = append(shapes, "multi-line-cc")
	}
	switch {
	case len(ages) == 0:
	case len(ages) > 1 && !allSame(ages):
		f.MaxAge = "conflict"
	default:
		v := ages[0]
		switch {
		case !reDigits.MatchString(v):
			f.MaxAge = "malformed"
		default:
			n, _ := new(big.Int).SetString(v, 10)
			switch {
			case n.Sign() == 0:
				f.MaxAge = "zero"
			case n.Cmp(big.NewInt(9223372036)) > 0:
				f.MaxAge = "overflow"
			default:
				f.MaxAge = "positive"
				f.MaxAgeSecs = n.Int64()
			}
		}
	}
	switch {
	case len(expLines) == 0:
	case len(expLines) > 1:
		f.Expires = "multi"
	default:
		v := expLines[0]
		if t, err := time.Parse(http.TimeFormat, v); err == nil {
			f.ExpiresAt = t
			if t.After(now) {
				f.Expires = "future"
			} else {
				f.Expires = "past"
			}
		} else if t, err := http.ParseTime(v); err == nil {
			f.ExpiresAt = t
			if t.After(now) {
				f.Expires = "otherformat-future"
			} else {
				f.Expires = "otherformat-past"
			}
		} else {
			f.Expires = "unparseable"
		}
	}
	f.Shape = strings.Join(dedup(shapes), "+")
	return f
}

func allSame(s []string) bool {
	for _, x := range s {
		if x != s[0] {
			return false
		}
	}
	return true
}

func dedup(s []string) []string {
	seen := map[string]bool{}
	var out []string
	for _, x := range s {
		if !seen[x] {
			seen[x] = true
			out = append(out, x)
		}
	}
	return out
}

// Storable is the C04 verdict for the freshness headers of a 200 answer to a GET.
func (f Freshness) Storable(ignoreCacheControl bool) Tri {
	if ignoreCacheControl {
		return Must
	}
	if f.Forbids || f.MaxAge == "zero" {
		return MustNot
	}
	expired := f.Expires == "past" || f.Expires == "unparseable"
	if f.MaxAge == "positive" && !f.ForbidsMaybe {
		switch f.Expires {
		case "none", "future":
			return Must
		}
		return Either // max-age overrides Expires in the RFC; the property lists "already expired" as a refusal
	}
	if f.MaxAge == "none" && expired {
		return MustNot
	}
	if !f.HasCC {
		switch f.Expires {
		case "none", "future":
			return Must
		}
		return Either // other date formats, several Expires lines
	}
	return Either // Cache-Control without usable max-age and without a forbidding directive, malformed values
}

// Lifetime is the C03 verdict for the freshness lifetime of a stored response.
type Lifetime struct {
	Kind  string        // "exact" (now+D), "atmost" (<= Until or now+D), "expired" (<= now), "either"
	D     time.Duration // for exact / atmost-by-duration
	Until time.Time     // for atmost-by-date
}

// LifetimeOf gives the reference lifetime (force_default_max_age, default_max_age given).
func (f Freshness) LifetimeOf(force bool, def time.Duration) Lifetime {
	if force {
		return Lifetime{Kind: "exact", D: def}
	}
	switch f.MaxAge {
	case "positive":
		return Lifetime{Kind: "atmost", D: time.Duration(f.MaxAgeSecs) * time.Second}
	case "overflow", "malformed", "conflict", "zero":
		return Lifetime{Kind: "either"}
	}
	switch f.Expires {
	case "none":
		return Lifetime{Kind: "exact", D: def}
	case "future", "past":
		return Lifetime{Kind: "atmost", Until: f.ExpiresAt}
	case "unparseable":
		return Lifetime{Kind: "expired"}
	}
	return Lifetime{Kind: "either"}
}
