// Package ref holds reference models written from the property statements and the
// RFCs, never from the implementation.
package ref

import (
	"math/big"
	"regexp"
	"strings"
)

// RangeKind is the verdict class of the Range reference.
type RangeKind string

const (
	RangeExact  RangeKind = "exact"  // must be served as exactly [Start,End]
	RangeClamp  RangeKind = "clamp"  // RFC-clamped [Start,End] or a refusal
	RangeRefuse RangeKind = "refuse" // must be refused (416 / full 200), never a slice
	RangeLoose  RangeKind = "loose"  // not grammatical, but one lenient reading exists: that slice (per its own class) or a refusal
	RangeAny    RangeKind = "any"    // not understood: refusal or any in-bounds slice
)

type RangeVerdict struct {
	Kind       RangeKind
	Start, End int64
	Shape      string // syntactic class for the evidence histogram
}

var (
	reIntRange = regexp.MustCompile(`^([0-9]+)-([0-9]*)$`)
	reSuffix   = regexp.MustCompile(`^-([0-9]+)$`)
)

func single(spec string, size int64) (RangeVerdict, bool) {
	sz := big.NewInt(size)
	if m := reIntRange.FindStringSubmatch(spec); m != nil {
		first, _ := new(big.Int).SetString(m[1], 10)
		if m[2] == "" {
			if first.Cmp(sz) >= 0 {
				return RangeVerdict{Kind: RangeRefuse, Shape: "open-unsat"}, true
			}
			return RangeVerdict{Kind: RangeExact, Start: first.Int64(), End: size - 1, Shape: "open"}, true
		}
		last, _ := new(big.Int).SetString(m[2], 10)
		if last.Cmp(first) < 0 {
			return RangeVerdict{Kind: RangeRefuse, Shape: "last<first"}, true
		}
		if first.Cmp(sz) >= 0 {
			return RangeVerdict{Kind: RangeRefuse, Shape: "closed-unsat"}, true
		}
		if last.Cmp(sz) >= 0 {
			return RangeVerdict{Kind: RangeClamp, Start: first.Int64(), End: size - 1, Shape: "closed-clamp"}, true
		}
		return RangeVerdict{Kind: RangeExact, Start: first.Int64(), End: last.Int64(), Shape: "closed"}, true
	}
	if m := reSuffix.FindStringSubmatch(spec); m != nil {
		n, _ := new(big.Int).SetString(m[1], 10)
		if n.Sign() == 0 || size == 0 {
			return RangeVerdict{Kind: RangeRefuse, Shape: "suffix-unsat"}, true
		}
		if n.Cmp(sz) > 0 {
			return RangeVerdict{Kind: RangeClamp, Start: 0, End: size - 1, Shape: "suffix-clamp"}, true
		}
		return RangeVerdict{Kind: RangeExact, Start: size - n.Int64(), End: size - 1, Shape: "suffix"}, true
	}
	return RangeVerdict{}, false
}

func trimOWS(s string) string { return strings.Trim(s, " \t") }

// Range is the RFC 9110 section 14 reference for one Range header value against a
// representation of the given size.
func Range(value string, size int64) RangeVerdict {
	eq := strings.IndexByte(value, '=')
	if eq < 0 {
		return RangeVerdict{Kind: RangeRefuse, Shape: "no-equals"}
	}
	unit, rest := value[:eq], value[eq+1:]
	if unit != "bytes" {
		if strings.EqualFold(trimOWS(unit), "bytes") {
			// unit names are case-insensitive in the RFC; reading it is allowed, refusing too
			v := Range("bytes="+rest, size)
			return loosen(v, "unit-case")
		}
		return RangeVerdict{Kind: RangeRefuse, Shape: "other-unit"}
	}
	if v, ok := single(rest, size); ok {
		return v
	}
	// list syntax: elements separated by commas with optional whitespace, empty elements ignored
	parts := strings.Split(rest, ",")
	var specs []string
	for _, p := range parts {
		if t := trimOWS(p); t != "" {
			specs = append(specs, t)
		}
	}
	allValid := len(specs) > 0
	for _, s := range specs {
		if _, ok := single(s, size); !ok {
			allValid = false
		}
	}
	if allValid && len(specs) >= 2 {
		return RangeVerdict{Kind: RangeRefuse, Shape: "multi"}
	}
	if allValid && len(specs) == 1 {
		v, _ := single(specs[0], size)
		return loosen(v, "list-padding")
	}
	if strings.Contains(rest, ",") {
		// something list-like that is not a list of valid specs: never a slice of a part of it
		// unless the whole thing has a single lenient reading (below)
	}
	squeezed := strings.NewReplacer(" ", "", "\t", "").Replace(rest)
	if v, ok := single(squeezed, size); ok {
		return loosen(v, "inner-space")
	}
	return RangeVerdict{Kind: RangeAny, Shape: "garbage"}
}

func loosen(v RangeVerdict, why string) RangeVerdict {
	switch v.Kind {
	case RangeExact, RangeClamp:
		return RangeVerdict{Kind: RangeLoose, Start: v.Start, End: v.End, Shape: why + ":" + v.Shape}
	case RangeLoose:
		return RangeVerdict{Kind: RangeLoose, Start: v.Start, End: v.End, Shape: why + "+" + v.Shape}
	}
	v.Shape = why + ":" + v.Shape
	return v
}

// RangeOutcome is what the code under test did with a Range value.
type RangeOutcome struct {
	Refused    bool
	Start, End int64
}

// CheckRange compares an outcome with the verdict. It returns "" if acceptable,
// otherwise a short reason.
func CheckRange(v RangeVerdict, o RangeOutcome, size int64) string {
	if !o.Refused {
		if o.Start < 0 || o.End < o.Start || o.End >= size {
			return "slice-out-of-bounds"
		}
	}
	switch v.Kind {
	case RangeExact:
		if o.Refused {
			return "satisfiable-range-refused"
		}
		if o.Start != v.Start || o.End != v.End {
			return "wrong-slice"
		}
	case RangeClamp, RangeLoose:
		if !o.Refused && (o.Start != v.Start || o.End != v.End) {
			return "wrong-slice"
		}
	case RangeRefuse:
		if !o.Refused {
			return "slice-for-unservable-range"
		}
	case RangeAny:
	}
	return ""
}
