package ref

import "strings"

const reservedChars = ":/?#[]@!$&'()*+,;=%"

func unhex(c byte) int {
	switch {
	case c >= '0' && c <= '9':
		return int(c - '0')
	case c >= 'a' && c <= 'f':
		return int(c-'a') + 10
	case c >= 'A' && c <= 'F':
		return int(c-'A') + 10
	}
	return -1
}

// CanonTarget maps a request-target to a canonical spelling under the equivalences
// RFC 3986 section 6.2.2 allows without changing the resource: percent-encodings of
// non-reserved bytes are decoded (%41 = A, %7C = |) and the hex digits of the remaining
// ones are upper-cased. %2F stays distinct from "/", %3F from "?", and so on.
func CanonTarget(t string) string {
	var b strings.Builder
	for i := 0; i < len(t); i++ {
		c := t[i]
		if c == '%' && i+2 < len(t)+0 && i+2 <= len(t)-1+0 {
			hi, lo := unhex(t[i+1]), unhex(t[i+2])
			if hi >= 0 && lo >= 0 {
				v := byte(hi<<4 | lo)
				if strings.IndexByte(reservedChars, v) >= 0 || v <= 0x20 || v >= 0x7f {
					b.WriteByte('%')
					b.WriteByte("0123456789ABCDEF"[hi])
					b.WriteByte("0123456789ABCDEF"[lo])
				} else {
					b.WriteByte(v)
				}
				i += 2
				continue
			}
		}
		b.WriteByte(c)
	}
	out := b.String()
	// an empty query ("/p?") is treated as no query: the distinction carries no meaning for HTTP resources
	if strings.HasSuffix(out, "?") && strings.Count(out, "?") == 1 {
		out = strings.TrimSuffix(out, "?")
	}
	return out
}

// HopByHop is the fixed hop-by-hop set of RFC 9110 section 7.6.1 (+ the de-facto Proxy-Connection).
var HopByHop = []string{"Connection", "Proxy-Connection", "Keep-Alive", "Proxy-Authenticate", "Proxy-Authorization", "Te", "Trailer", "Transfer-Encoding", "Upgrade"}
