// Package metricsx resets reservoir's process-global metrics between cases without replacing the
// global pointer (replacing it would race with janitor goroutines of earlier cases that are still
// winding down - a harness artefact the race detector would report).
package metricsx

import (
	"reflect"

	"reservoir/metrics"
)

// Reset sets every atomic counter of metrics.Global.Cache and .Requests to zero.
func Reset() {
	zero(reflect.ValueOf(&metrics.Global.Cache).Elem())
	zero(reflect.ValueOf(&metrics.Global.Requests).Elem())
}

func zero(v reflect.Value) {
	for i := 0; i < v.NumField(); i++ {
		f := v.Field(i)
		if !f.CanAddr() {
			continue
		}
		if m := f.Addr().MethodByName("Set"); m.IsValid() && m.Type().NumIn() == 1 && m.Type().In(0).Kind() == reflect.Int64 {
			m.Call([]reflect.Value{reflect.ValueOf(int64(0))})
		}
	}
}
