// Package ev is the small runtime shared by every check package: it configures
// rapid from the VERIF_* environment, counts what the generators actually
// produced (evaluations, class histogram, distinct non-trivial cases, samples),
// handles known findings (exclusion by signature, witness replay), writes the
// shrunk failing case as a plain JSON replay file, and leaves a per-process
// result file that the ./check driver merges into evidence/<id>.json.
package ev

import (
	"encoding/json"
	"flag"
	"fmt"
	"hash/fnv"
	"io"
	"log/slog"
	"os"
	"path/filepath"
	"runtime"
	"runtime/debug"
	"sort"
	"strconv"
	"strings"
	"sync"
	"testing"
	"time"
	"verifharness/internal/netx"

	"pgregory.net/rapid"
)

// Failure describes one violation of the property by one case.
type Failure struct {
	Sig  string `json:"sig"`  // specific signature: input class / call site / history shape
	What string `json:"what"` // human readable
}

func Failf(sig, format string, args ...any) *Failure {
	return &Failure{Sig: sig, What: fmt.Sprintf(format, args...)}
}

// Obs is filled by a case runner to describe the case it ran.
type Obs struct {
	Classes    []string
	NonTrivial bool
	Canon      string // canonical form for distinctness; default: JSON of the case
	Skip       bool   // case was not executable (counted separately, never a failure)
}

func (o *Obs) Class(c string)            { o.Classes = append(o.Classes, c) }
func (o *Obs) Classf(f string, a ...any) { o.Classes = append(o.Classes, fmt.Sprintf(f, a...)) }

type knownEntry struct {
	Property  string `json:"property"`
	Signature string `json:"signature"`
	What      string `json:"what"`
	Witness   string `json:"witness"`
	Commit    string `json:"commit,omitempty"`
}

type knownFile struct {
	Open  []knownEntry `json:"open"`
	Fixed []knownEntry `json:"fixed"`
}

type violation struct {
	Sub    string `json:"sub"`
	Sig    string `json:"sig"`
	What   string `json:"what"`
	Replay string `json:"replay"`
}

type subStats struct {
	Evaluations   int64            `json:"evaluations"`
	Skipped       int64            `json:"skipped"`
	EnvRetries    int64            `json:"env_retries,omitempty"`
	TimingRetries int64            `json:"timing_retries,omitempty"`
	NonTrivial    int64            `json:"nontrivial"`
	Classes       map[string]int64 `json:"classes"`
	Excluded      map[string]int64 `json:"excluded_known"`
	Exhaustive    bool             `json:"exhaustive,omitempty"`
	Rule          string           `json:"rule"`
}

type result struct {
	Property   string               `json:"property"`
	Tier       string               `json:"tier"`
	Seed       int64                `json:"seed"`
	Shard      int                  `json:"shard"`
	Subs       map[string]*subStats `json:"subs"`
	Hashes     []uint64             `json:"hashes"`
	Samples    []json.RawMessage    `json:"samples"`
	Violations []violation          `json:"violations"`
	KnownSeen  map[string]string    `json:"known_seen"` // sig -> what
	Notes      []string             `json:"notes"`
	WallS      float64              `json:"wall_s"`
	Incomplete []string             `json:"incomplete"`
}

var (
	mu        sync.Mutex
	res       = &result{Subs: map[string]*subStats{}, KnownSeen: map[string]string{}}
	hashes    = map[uint64]struct{}{}
	known     knownFile
	openSigs  = map[string]knownEntry{}
	replayers = map[string]func(json.RawMessage) (*Failure, error){}
	started   = time.Now()
	outDir    string
	rootDir   string
	Tier            = "quick"
	Seed      int64 = 1
	Shard     int
	NShards   = 1
	propID    string
	sampleCap = 8

	sampledClass = map[string]bool{}
)

// Thorough reports whether the thorough tier was requested.
func Thorough() bool { return Tier == "thorough" }

// N picks a case count by tier; thorough counts are divided over shards.
var raceWorkload = os.Getenv("VERIF_RACE") == "1"

// Race reports whether this binary runs as a workload of C15's race pass.
func Race() bool { return raceWorkload }

func N(quick, thorough int) int {
	if os.Getenv("VERIF_RACE") == "1" {
		// race-instrumented binaries are several times slower: a quarter of the cases
		quick, thorough = max(quick/4, 5), max(thorough/4, 5)
	}
	if Thorough() {
		n := thorough / NShards
		if n < 1 {
			n = 1
		}
		return n
	}
	return quick
}

// ShardSeed returns a non-zero seed derived from VERIF_SEED, the shard and a salt.
func ShardSeed(salt uint64) uint64 {
	h := fnv.New64a()
	fmt.Fprintf(h, "%d/%d/%d", Seed, Shard, salt)
	s := h.Sum64()
	if s == 0 {
		s = 1
	}
	return s
}

func envInt(k string, def int64) int64 {
	if v := os.Getenv(k); v != "" {
		if n, err := strconv.ParseInt(v, 10, 64); err == nil {
			return n
		}
	}
	return def
}

// Main is called from TestMain of every check package.
func Main(m *testing.M, property string) {
	propID = property
	res.Property = property
	flag.Parse()
	outDir = os.Getenv("VERIF_OUT")
	if outDir == "" {
		outDir, _ = os.MkdirTemp("", "verif-out-")
	}
	rootDir = os.Getenv("VERIF_ROOT")
	if rootDir == "" {
		rootDir = "/verif"
	}
	if t := os.Getenv("VERIF_TIER"); t == "thorough" {
		Tier = "thorough"
	}
	Seed = envInt("VERIF_SEED", 1)
	Shard = int(envInt("VERIF_SHARD", 0))
	NShards = int(envInt("VERIF_NSHARDS", 1))
	if NShards < 1 {
		NShards = 1
	}
	res.Tier, res.Seed, res.Shard = Tier, Seed, Shard

	flag.Set("rapid.seed", strconv.FormatUint(ShardSeed(0), 10))
	flag.Set("rapid.nofailfile", "true")
	if Thorough() {
		flag.Set("rapid.shrinktime", "60s")
	} else {
		flag.Set("rapid.shrinktime", "15s")
	}
	// reservoir logs through slog's default logger; silence it.
	slog.SetDefault(slog.New(slog.NewTextHandler(io.Discard, &slog.HandlerOptions{Level: slog.Level(100)})))

	kp := os.Getenv("VERIF_KNOWN")
	if kp == "" {
		kp = filepath.Join(rootDir, "known_findings.json")
	}
	if b, err := os.ReadFile(kp); err == nil {
		if err := json.Unmarshal(b, &known); err != nil {
			fmt.Fprintf(os.Stderr, "ev: cannot parse %s: %v\n", kp, err)
			os.Exit(2)
		}
	}
	for _, e := range known.Open {
		if e.Property == property {
			openSigs[e.Signature] = e
		}
	}
	code := m.Run()
	Flush()
	os.Exit(code)
}

// Flush writes the per-process result file.
func Flush() {
	mu.Lock()
	defer mu.Unlock()
	res.WallS = time.Since(started).Seconds()
	res.Hashes = res.Hashes[:0]
	for h := range hashes {
		res.Hashes = append(res.Hashes, h)
	}
	sort.Slice(res.Hashes, func(i, j int) bool { return res.Hashes[i] < res.Hashes[j] })
	b, _ := json.Marshal(res)
	// written under another name and renamed: a fuzz worker can be killed by its coordinator in the middle of
	// this, and the driver must never find half a result file
	name := fmt.Sprintf("result-%s-%d-%d.json", propID, Shard, os.Getpid())
	tmp := filepath.Join(outDir, "."+name+".tmp")
	if err := os.WriteFile(tmp, b, 0o644); err == nil {
		_ = os.Rename(tmp, filepath.Join(outDir, name))
	}
}

// Note adds a free-text note to the evidence (assumptions, generator remarks).
func Note(format string, a ...any) {
	mu.Lock()
	defer mu.Unlock()
	s := fmt.Sprintf(format, a...)
	for _, n := range res.Notes {
		if n == s {
			return
		}
	}
	res.Notes = append(res.Notes, s)
}

// Inconclusive records that the run as a whole says too little to be reported as "held": the driver
// exits 2 (never a violation). Incomplete (below) only notes that single cases were dropped.
func Inconclusive(format string, a ...any) {
	Incomplete("FATAL: "+format, a...)
}

var dropped int // cases dropped for environment / harness reasons (guarded by mu)

// Incomplete records that a case or sub-check could not complete (a note in the evidence, not a violation).
func Incomplete(format string, a ...any) {
	mu.Lock()
	defer mu.Unlock()
	res.Incomplete = append(res.Incomplete, fmt.Sprintf(format, a...))
}

func sub(name string) *subStats {
	s := res.Subs[name]
	if s == nil {
		s = &subStats{Classes: map[string]int64{}, Excluded: map[string]int64{}}
		res.Subs[name] = s
	}
	return s
}

// Sub is one named sub-check of a property with a typed case.
type Sub[C any] struct {
	Name string
	Rule string
	Run  func(c C, o *Obs) *Failure
	// Timeout > 0 makes a case that does not return within it a failure ("hang:<name>") carrying the
	// stacks of the goroutines parked inside reservoir code, instead of a test-binary timeout.
	Timeout time.Duration
}

// Register makes the sub-check known to the replay dispatcher and returns it.
func Register[C any](name, rule string, run func(c C, o *Obs) *Failure) *Sub[C] {
	s := &Sub[C]{Name: name, Rule: rule, Run: run}
	mu.Lock()
	sub(name).Rule = rule
	replayers[name] = func(raw json.RawMessage) (*Failure, error) {
		var c C
		if err := json.Unmarshal(raw, &c); err != nil {
			return nil, err
		}
		return s.safeRun(c, &Obs{}), nil
	}
	mu.Unlock()
	return s
}

// safeRun converts a panic that escapes the runner (i.e. a panic in code under
// test on the calling goroutine that the runner did not itself classify) into a failure.
func (s *Sub[C]) safeRun(c C, o *Obs) (f *Failure) {
	if s.Timeout <= 0 {
		return s.runRecover(c, o)
	}
	done := make(chan *Failure, 1)
	lo := &Obs{}
	go func() { done <- s.runRecover(c, lo) }()
	w0 := netx.Waited()
	limit := s.Timeout
	for {
		select {
		case f := <-done:
			*o = *lo
			return f
		case <-time.After(limit):
		}
		// time the case spent waiting for the sandbox (free ports) does not count
		w1 := netx.Waited()
		if w1 == w0 {
			break
		}
		limit = time.Duration(w1-w0) + time.Second
		w0 = w1
	}
	{
		o.NonTrivial = true
		return &Failure{Sig: "hang:" + s.Name, What: fmt.Sprintf("the case did not finish within %v; goroutines inside reservoir code:\n%s", s.Timeout, reservoirStacks())}
	}
}

func reservoirStacks() string {
	buf := make([]byte, 4<<20)
	n := runtime.Stack(buf, true)
	var keep []string
	for _, g := range strings.Split(string(buf[:n]), "\n\n") {
		if strings.Contains(g, "reservoir/") && !strings.Contains(g, "reservoirStacks") {
			lines := strings.Split(g, "\n")
			if len(lines) > 14 {
				lines = lines[:14]
			}
			keep = append(keep, strings.Join(lines, "\n"))
		}
		if len(keep) >= 6 {
			break
		}
	}
	return strings.Join(keep, "\n\n")
}

func (s *Sub[C]) runRecover(c C, o *Obs) (f *Failure) {
	defer func() {
		if r := recover(); r != nil {
			f = &Failure{Sig: "panic:" + s.Name, What: fmt.Sprintf("panic: %v\n%s", r, trimStack(debug.Stack()))}
		}
	}()
	return s.Run(c, o)
}

func trimStack(b []byte) string {
	lines := strings.Split(string(b), "\n")
	var keep []string
	for _, l := range lines {
		if strings.Contains(l, "reservoir") || strings.Contains(l, "verifharness") {
			keep = append(keep, strings.TrimSpace(l))
		}
		if len(keep) >= 12 {
			break
		}
	}
	return strings.Join(keep, "\n")
}

type replayFile struct {
	Property string          `json:"property"`
	Sub      string          `json:"sub"`
	Sig      string          `json:"sig"`
	What     string          `json:"what"`
	Case     json.RawMessage `json:"case"`
}

func hash64(s string) uint64 {
	h := fnv.New64a()
	io.WriteString(h, s)
	return h.Sum64()
}

func sanitize(s string) string {
	var b strings.Builder
	for _, r := range s {
		switch {
		case r >= 'a' && r <= 'z', r >= 'A' && r <= 'Z', r >= '0' && r <= '9', r == '-', r == '_', r == '.':
			b.WriteRune(r)
		default:
			b.WriteByte('_')
		}
	}
	out := b.String()
	if len(out) > 80 {
		out = out[:80]
	}
	return out
}

// account records one executed case; returns the failure that must be raised (nil if none
// or if it is an open known finding).
func (s *Sub[C]) account(c C, o *Obs, f *Failure) *Failure {
	raw, _ := json.Marshal(c)
	mu.Lock()
	defer mu.Unlock()
	st := sub(s.Name)
	if o.Skip {
		st.Skipped++
		return nil
	}
	st.Evaluations++
	for _, cl := range o.Classes {
		st.Classes[cl]++
	}
	if f != nil {
		if e, ok := openSigs[f.Sig]; ok {
			st.Excluded[f.Sig]++
			res.KnownSeen[f.Sig] = e.What
			return nil
		}
	}
	if o.NonTrivial {
		st.NonTrivial++
		canon := o.Canon
		if canon == "" {
			canon = string(raw)
		}
		h := hash64(s.Name + "\x00" + canon)
		if _, dup := hashes[h]; !dup {
			hashes[h] = struct{}{}
			ck := s.Name + "|" + strings.Join(o.Classes, ",")
			if len(res.Samples) < sampleCap && !sampledClass[ck] {
				sampledClass[ck] = true
				sm, _ := json.Marshal(map[string]any{"sub": s.Name, "classes": o.Classes, "case": trunc(raw)})
				res.Samples = append(res.Samples, sm)
			}
		}
	}
	if f != nil {
		name := fmt.Sprintf("%s-%s-%s.json", propID, sanitize(s.Name), sanitize(f.Sig))
		path := filepath.Join(outDir, name)
		rb, _ := json.MarshalIndent(replayFile{Property: propID, Sub: s.Name, Sig: f.Sig, What: f.What, Case: raw}, "", " ")
		_ = os.WriteFile(path, rb, 0o644)
		found := false
		for i := range res.Violations {
			if res.Violations[i].Replay == path {
				res.Violations[i].What = f.What
				found = true
			}
		}
		if !found {
			res.Violations = append(res.Violations, violation{Sub: s.Name, Sig: f.Sig, What: f.What, Replay: path})
		}
	}
	return f
}

func trunc(raw []byte) json.RawMessage {
	if len(raw) <= 1500 {
		return raw
	}
	b, _ := json.Marshal(string(raw[:1500]) + "…(truncated)")
	return b
}

// Once runs the sub-check on one concrete case (enumerations, regressions).
// It returns the failure to raise, nil if none.
func (s *Sub[C]) Once(c C) *Failure {
	o := &Obs{}
	f := s.safeRun(c, o)
	if raceWorkload {
		// C15's race pass runs this check as a workload for the race detector: a functional failure belongs to
		// the property's own check and must not end the workload at its first case (rapid stops at a failure, and
		// a defect that breaks both would then never get as far as the detector's report)
		if f != nil {
			o.Class("functional-failure-left-to-the-property's-own-check")
		}
		return s.account(c, o, nil)
	}
	// a failure whose text names exhaustion of the sandbox itself (no free loopback port, no file
	// descriptors) says nothing about reservoir: wait for the machine to recover and run the case again;
	// if it persists the case is dropped and the run is reported inconclusive, never as a violation
	// "no answer within the client's time limit" is a judgement by the wall clock: on a machine running
	// several thorough tiers a stall of that length happens without any defect. A hang caused by the code
	// under test shows again when the same case is run again; one that does not is counted and dropped.
	if f != nil && strings.Contains(f.What, "i/o timeout") && !strings.HasPrefix(f.Sig, "deadlock") && !strings.HasPrefix(f.Sig, "hang") {
		netx.Calm()
		first := f
		o = &Obs{}
		f = s.safeRun(c, o)
		mu.Lock()
		sub(s.Name).TimingRetries++
		mu.Unlock()
		if f == nil {
			Incomplete("%s: a client time-out did not show again when the case was repeated (machine stall): %s: %.200s", s.Name, first.Sig, first.What)
		}
	}
	if f != nil && !netx.IsEnv(f.What) && netx.Pressure() {
		// the port range is nearly used up: a dial inside the proxy may have failed without its error text
		// reaching the failure message; run the case once more when the machine has ports again
		netx.Calm()
		o = &Obs{}
		f = s.safeRun(c, o)
		mu.Lock()
		sub(s.Name).EnvRetries++
		mu.Unlock()
	}
	for i := 0; f != nil && netx.IsEnv(f.What) && i < len(envWaits); i++ {
		time.Sleep(envWaits[i])
		o = &Obs{}
		f = s.safeRun(c, o)
		mu.Lock()
		sub(s.Name).EnvRetries++
		mu.Unlock()
	}
	// a failure the check itself attributes to its own plumbing (signature "<x>.harness": a child process
	// that did not answer, a priming request that failed) is run again; if it persists the run is inconclusive
	if f != nil && isHarnessSig(f.Sig) {
		time.Sleep(2 * time.Second)
		netx.Calm()
		first := f.What
		o = &Obs{}
		f = s.safeRun(c, o)
		if f != nil && isHarnessSig(f.Sig) {
			Incomplete("%s: harness failure persisted (%s): %.300s / %.300s", s.Name, f.Sig, first, f.What)
			noteDrop()
			o.Skip = true
			f = nil
		}
	}
	if f != nil && netx.IsEnv(f.What) {
		Incomplete("%s: sandbox resource exhaustion persisted over %d retries: %.300s", s.Name, len(envWaits), f.What)
		noteDrop()
		o.Skip = true
		f = nil
	}
	return s.account(c, o, f)
}

// noteDrop counts a dropped case; many of them make the run inconclusive.
func noteDrop() {
	mu.Lock()
	dropped++
	n := dropped
	mu.Unlock()
	if n == 4 {
		Inconclusive("%d cases had to be dropped for environment / harness reasons", n)
	}
}

func isHarnessSig(sig string) bool {
	return strings.HasSuffix(sig, ".harness") || strings.Contains(sig, ".harness:")
}

var envWaits = []time.Duration{2 * time.Second, 10 * time.Second, 30 * time.Second, 45 * time.Second}

// Enumerate runs the sub-check over an explicit enumeration; it continues past
// failures with an already-seen signature and reports each distinct signature once.
func (s *Sub[C]) Enumerate(t *testing.T, exhaustive bool, gen func(yield func(C) bool)) {
	t.Helper()
	seen := map[string]bool{}
	gen(func(c C) bool {
		if f := s.Once(c); f != nil && !seen[f.Sig] {
			seen[f.Sig] = true
			t.Errorf("%s: %s: %s", s.Name, f.Sig, f.What)
		}
		return len(seen) < 8
	})
	if exhaustive {
		mu.Lock()
		sub(s.Name).Exhaustive = true
		mu.Unlock()
	}
}

// Check drives the sub-check with rapid for n cases.
func (s *Sub[C]) Check(t *testing.T, n int, draw func(*rapid.T) C) {
	t.Helper()
	flag.Set("rapid.checks", strconv.Itoa(n))
	ran := 0
	rapid.Check(t, func(rt *rapid.T) {
		c := draw(rt)
		ran++
		if f := s.Once(c); f != nil {
			rt.Fatalf("%s: %s: %s", s.Name, f.Sig, f.What)
		}
	})
	// rapid stops generating when the test binary's deadline (minus its shrink allowance) comes near and
	// still reports success: an exploration that was cut short is inconclusive, not a pass
	if !t.Failed() && ran < n {
		if ran < n/4 {
			Inconclusive("%s: rapid stopped after %d of %d cases (deadline of the test binary)", s.Name, ran, n)
		} else {
			Incomplete("%s: rapid stopped after %d of %d cases (deadline of the test binary)", s.Name, ran, n)
		}
	}
}

// CheckSeeded is Check with a seed salt, so that several Check calls in one
// process do not replay the same random stream.
func (s *Sub[C]) CheckSalt(t *testing.T, salt uint64, n int, draw func(*rapid.T) C) {
	flag.Set("rapid.seed", strconv.FormatUint(ShardSeed(salt), 10))
	s.Check(t, n, draw)
}

// ReplayWitnesses replays the witnesses of known findings of this property:
// open ones mark the finding as still present; fixed ones are plain regressions.
// It also handles VERIF_REPLAY (a single file given to ./check --replay).
func ReplayWitnesses(t *testing.T) {
	t.Helper()
	if p := os.Getenv("VERIF_REPLAY"); p != "" {
		f, err := replayPath(p)
		if err != nil {
			t.Fatalf("replay %s: %v", p, err)
		}
		if f != nil {
			recordViolation("replay", f, p)
			t.Errorf("replay %s: still fails: %s: %s", p, f.Sig, f.What)
		} else {
			t.Logf("replay %s: passes", p)
		}
		return
	}
	for _, e := range known.Open {
		if e.Property != propID || e.Witness == "" {
			continue
		}
		f, err := replayPath(filepath.Join(rootDir, e.Witness))
		if err != nil {
			t.Fatalf("known-finding witness %s: %v", e.Witness, err)
		}
		if f != nil && f.Sig == e.Signature {
			mu.Lock()
			res.KnownSeen[e.Signature] = e.What
			mu.Unlock()
		} else if f != nil {
			recordViolation("witness", f, filepath.Join(rootDir, e.Witness))
			t.Errorf("witness %s fails with a different signature %s: %s", e.Witness, f.Sig, f.What)
		}
	}
	for _, e := range known.Fixed {
		if e.Property != propID || e.Witness == "" {
			continue
		}
		p := filepath.Join(rootDir, e.Witness)
		f, err := replayPath(p)
		if err != nil {
			t.Fatalf("fixed-finding witness %s: %v", e.Witness, err)
		}
		mu.Lock()
		st := sub("regressions")
		st.Rule = "witnesses of fixed findings re-run as plain regressions"
		st.Evaluations++
		mu.Unlock()
		if f != nil {
			if oe, ok := openSigs[f.Sig]; ok {
				// the witness now trips over a different, listed open finding: not a regression of this one
				mu.Lock()
				res.KnownSeen[f.Sig] = oe.What
				mu.Unlock()
				continue
			}
			recordViolation("regression", f, p)
			t.Errorf("regression: fixed finding %s is back: %s: %s", e.Signature, f.Sig, f.What)
		}
	}
}

func recordViolation(subname string, f *Failure, path string) {
	mu.Lock()
	defer mu.Unlock()
	res.Violations = append(res.Violations, violation{Sub: subname, Sig: f.Sig, What: f.What, Replay: path})
}

func replayPath(p string) (*Failure, error) {
	b, err := os.ReadFile(p)
	if err != nil {
		return nil, err
	}
	var rf replayFile
	if err := json.Unmarshal(b, &rf); err != nil {
		return nil, err
	}
	mu.Lock()
	r := replayers[rf.Sub]
	mu.Unlock()
	if r == nil {
		return nil, fmt.Errorf("no sub-check %q registered in this package", rf.Sub)
	}
	return r(rf.Case)
}

// WithTimeout sets the per-case watchdog and returns the sub-check.
func (s *Sub[C]) WithTimeout(d time.Duration) *Sub[C] {
	s.Timeout = d
	return s
}
