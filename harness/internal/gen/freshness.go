// Package gen holds generators shared by several checks.
package gen

import (
	"fmt"
	"net/http"
	"strings"
	"time"

	"pgregory.net/rapid"
)

// Fresh is a generated set of freshness header lines.
type Fresh struct {
	CC      []string `json:"cc,omitempty"`
	Expires []string `json:"expires,omitempty"`
	// Date is the answer's own Date field when it is not "now": an answer that was generated a while ago
	// (it comes out of the origin's own cache or through a CDN). Its Expires date is no later for that.
	Date string `json:"date,omitempty"`
}

var maxAgeVals = []string{"0", "1", "5", "60", "60", "3600", "2147483648", "9223372036", "9223372037", "10000000000000",
	"99999999999999999999", "-1", "abc", "\"60\"", "", "1.5", "0x10", "00", "060"}

var plainDirectives = []string{"no-store", "no-cache", "private", "public", "must-revalidate", "immutable", "s-maxage=5",
	"no-cache=\"Set-Cookie\"", "private=\"X-Y\"", "foo=bar", "no-storefront", "x-private", "stale-while-revalidate=5", "no-transform", "proxy-revalidate"}

func randCase(t *rapid.T, s string) string {
	switch rapid.IntRange(0, 5).Draw(t, "case") {
	case 0:
		return strings.ToUpper(s)
	case 1:
		// capitalise name parts: No-Store, Max-Age
		parts := strings.Split(s, "-")
		for i, p := range parts {
			if p != "" {
				parts[i] = strings.ToUpper(p[:1]) + p[1:]
			}
		}
		return strings.Join(parts, "-")
	default:
		return s
	}
}

func drawDirective(t *rapid.T) string {
	if rapid.IntRange(0, 2).Draw(t, "is-max-age") == 0 {
		name := randCase(t, "max-age")
		v := rapid.SampledFrom(maxAgeVals).Draw(t, "max-age")
		switch rapid.IntRange(0, 14).Draw(t, "eq") {
		case 0:
			return name + " = " + v
		case 1:
			return name
		default:
			return name + "=" + v
		}
	}
	d := rapid.SampledFrom(plainDirectives).Draw(t, "directive")
	if i := strings.IndexByte(d, '='); i >= 0 {
		return randCase(t, d[:i]) + d[i:]
	}
	return randCase(t, d)
}

// DrawFresh draws Cache-Control / Expires lines: 0-3 Cache-Control lines of 0-4 directives in
// any letter case, and an Expires in one of several forms.
func DrawFresh(t *rapid.T, now time.Time) Fresh {
	var f Fresh
	nl := rapid.SampledFrom([]int{0, 0, 1, 1, 1, 1, 2, 2, 3}).Draw(t, "cc-lines")
	for i := 0; i < nl; i++ {
		nd := rapid.SampledFrom([]int{0, 1, 1, 1, 2, 2, 3, 4}).Draw(t, "n-directives")
		var ds []string
		for j := 0; j < nd; j++ {
			ds = append(ds, drawDirective(t))
		}
		sep := rapid.SampledFrom([]string{", ", ",", " , ", ",  "}).Draw(t, "sep")
		f.CC = append(f.CC, strings.Join(ds, sep))
	}
	switch rapid.IntRange(0, 13).Draw(t, "expires") {
	case 0, 1:
		f.Expires = []string{now.Add(time.Hour).UTC().Format(http.TimeFormat)}
	case 2:
		f.Expires = []string{now.Add(-time.Hour).UTC().Format(http.TimeFormat)}
	case 3:
		f.Expires = []string{rapid.SampledFrom([]string{"0", "-1", "tomorrow", "", "Thu, 01 Jan 1970 00:00:00", "2030-01-01T00:00:00Z", "never"}).Draw(t, "bad-expires")}
	case 4:
		f.Expires = []string{now.Add(time.Hour).UTC().Format(time.RFC850)}
	case 5:
		f.Expires = []string{now.Add(time.Hour).UTC().Format(time.ANSIC)}
	case 6:
		f.Expires = []string{now.Add(time.Hour).UTC().Format(http.TimeFormat), now.Add(-time.Hour).UTC().Format(http.TimeFormat)}
	case 7:
		f.Expires = []string{now.Add(-time.Hour).UTC().Format(time.RFC850)}
	case 8:
		// the IMF-fixdate layout with something else than "GMT" in the zone position: not an HTTP-date. The
		// wall-clock digits lie hours in the future, so a parser that reads them leniently keeps the answer alive
		zone := rapid.SampledFrom([]string{"UTC", "JST", "EST", "+0000", "+0900", "Z", "gmt"}).Draw(t, "zone")
		f.Expires = []string{now.Add(3*time.Hour).UTC().Format("Mon, 02 Jan 2006 15:04:05 ") + zone}
	}
	if len(f.Expires) > 0 && rapid.IntRange(0, 3).Draw(t, "old-date") == 0 {
		f.Date = now.Add(-rapid.SampledFrom([]time.Duration{6 * time.Second, 45 * time.Second, time.Hour, 26 * time.Hour}).Draw(t, "date-ago")).UTC().Format(http.TimeFormat)
	}
	return f
}

// Canon is a canonical rendering for distinctness counting (dates replaced by their class).
func (f Fresh) Canon() string {
	exp := make([]string, len(f.Expires))
	for i, e := range f.Expires {
		if t, err := http.ParseTime(e); err == nil {
			if t.After(time.Now()) {
				exp[i] = fmt.Sprintf("<future:%d>", len(e))
			} else {
				exp[i] = fmt.Sprintf("<past:%d>", len(e))
			}
		} else {
			exp[i] = e
		}
	}
	old := ""
	if f.Date != "" {
		old = "||old-date"
	}
	return strings.Join(f.CC, "\n") + "||" + strings.Join(exp, "\n") + old
}

// Lines are the header lines in sending order.
func (f Fresh) Lines() [][2]string {
	var out [][2]string
	for _, l := range f.CC {
		out = append(out, [2]string{"Cache-Control", l})
	}
	for _, l := range f.Expires {
		out = append(out, [2]string{"Expires", l})
	}
	if f.Date != "" {
		out = append(out, [2]string{"Date", f.Date})
	}
	return out
}

// Header renders the lines into an http.Header (keys omitted when empty).
func (f Fresh) Header() http.Header {
	h := http.Header{}
	if len(f.CC) > 0 {
		h["Cache-Control"] = append([]string(nil), f.CC...)
	}
	if len(f.Expires) > 0 {
		h["Expires"] = append([]string(nil), f.Expires...)
	}
	if f.Date != "" {
		h["Date"] = []string{f.Date}
	}
	return h
}
