// Package netx holds the harness's own socket plumbing. A busy machine running several thorough
// tiers at once can run out of ephemeral loopback ports (every closed client connection parks its
// port in TIME_WAIT for 60 s); that is a property of the sandbox, not of reservoir, so listeners and
// dials made by the harness wait for a port instead of failing, and ev treats what is left as an
// environment failure (inconclusive), never as a violation.
package netx

import (
	"errors"
	"net"
	"net/http"
	"net/http/httptest"
	"strings"
	"syscall"
	"time"
)

// EnvMarkers are the error texts of resource exhaustion in the sandbox itself.
var EnvMarkers = []string{
	"address already in use",
	"cannot assign requested address",
	"too many open files",
	"no buffer space available",
	"cannot allocate memory",
	"resource temporarily unavailable",
}

// IsEnv reports whether the text names a sandbox resource failure.
func IsEnv(s string) bool {
	for _, m := range EnvMarkers {
		if strings.Contains(s, m) {
			return true
		}
	}
	return false
}

func transient(err error) bool {
	return errors.Is(err, syscall.EADDRINUSE) || errors.Is(err, syscall.EADDRNOTAVAIL) ||
		errors.Is(err, syscall.EMFILE) || errors.Is(err, syscall.ENFILE) || errors.Is(err, syscall.ENOBUFS) ||
		(err != nil && IsEnv(err.Error()))
}

var waits = []time.Duration{200 * time.Millisecond, time.Second, 3 * time.Second, 8 * time.Second, 15 * time.Second, 30 * time.Second, 30 * time.Second}

// Listen opens a loopback listener on a free port, waiting (up to about 90 s) for one when the
// machine has none left.
func Listen() net.Listener {
	var err error
	for i := 0; ; i++ {
		var ln net.Listener
		ln, err = net.Listen("tcp", "127.0.0.1:0")
		if err == nil {
			return ln
		}
		if !transient(err) || i >= len(waits) {
			break
		}
		time.Sleep(waits[i])
	}
	panic(err)
}

// Dial connects to addr, waiting for a local port when the machine has none left.
func Dial(addr string, timeout time.Duration) (net.Conn, error) {
	var err error
	for i := 0; ; i++ {
		var c net.Conn
		c, err = net.DialTimeout("tcp", addr, timeout)
		if err == nil {
			return c, nil
		}
		if !transient(err) || i >= 4 {
			return nil, err
		}
		time.Sleep(waits[i])
	}
}

// Server is httptest.NewUnstartedServer on a listener from Listen.
func Server(h http.Handler) *httptest.Server {
	return &httptest.Server{Listener: Listen(), Config: &http.Server{Handler: h}}
}
