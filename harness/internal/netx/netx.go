// Package netx holds the harness's own socket plumbing. A busy machine running several thorough
// tiers at once can run out of ephemeral loopback ports (every closed client connection parks its
// port in TIME_WAIT for 60 s); that is a property of the sandbox, not of reservoir, so listeners and
// dials made by the harness wait for a port instead of failing, and ev treats what is left as an
// environment failure (inconclusive), never as a violation.
package netx

import (
	"errors"
	"fmt"
	"net"
	"net/http"
	"net/http/httptest"
	"os"
	"strings"
	"sync"
	"sync/atomic"
	"syscall"
	"time"
)

// EnvMarkers are the error texts of resource exhaustion in the sandbox itself.
var EnvMarkers = []string{
	"address already in use",
	"cannot assign requested address",
	"too many open files",
	"no buffer space available",
	"cannot allocate memory",
	"resource temporarily unavailable",
}

// IsEnv reports whether the text names a sandbox resource failure.
func IsEnv(s string) bool {
	for _, m := range EnvMarkers {
		if strings.Contains(s, m) {
			return true
		}
	}
	return false
}

func transient(err error) bool {
	return errors.Is(err, syscall.EADDRINUSE) || errors.Is(err, syscall.EADDRNOTAVAIL) ||
		errors.Is(err, syscall.EMFILE) || errors.Is(err, syscall.ENFILE) || errors.Is(err, syscall.ENOBUFS) ||
		(err != nil && IsEnv(err.Error()))
}

var waits = []time.Duration{200 * time.Millisecond, time.Second, 3 * time.Second, 8 * time.Second, 15 * time.Second, 30 * time.Second, 30 * time.Second}

// TimeWait is the number of sockets in TIME_WAIT (from /proc/net/sockstat; -1 if unknown). The loopback
// port range of the sandbox holds 28232 ports.
func TimeWait() int {
	b, err := os.ReadFile("/proc/net/sockstat")
	if err != nil {
		return -1
	}
	if i := strings.Index(string(b), " tw "); i >= 0 {
		var n int
		fmt.Sscanf(string(b)[i+4:], "%d", &n)
		return n
	}
	return -1
}

var portRange = func() int {
	b, err := os.ReadFile("/proc/sys/net/ipv4/ip_local_port_range")
	var lo, hi int
	if err != nil {
		return 28232
	}
	if n, _ := fmt.Sscanf(string(b), "%d %d", &lo, &hi); n != 2 || hi <= lo {
		return 28232
	}
	return hi - lo + 1
}()

// portsParked counts the distinct local ports held by TIME_WAIT sockets (/proc/net/tcp, state 06).
// Connections closed first by a listener's side all park the listener's one port, so the plain socket
// count overstates how much of the range is gone. The answer is cached for a second.
var parked struct {
	sync.Mutex
	at time.Time
	n  int
}

func portsParked() int {
	parked.Lock()
	defer parked.Unlock()
	if time.Since(parked.at) < time.Second {
		return parked.n
	}
	b, err := os.ReadFile("/proc/net/tcp")
	if err != nil {
		return -1
	}
	seen := map[string]struct{}{}
	for _, line := range strings.Split(string(b), "\n")[1:] {
		f := strings.Fields(line)
		if len(f) > 3 && f[3] == "06" {
			if i := strings.IndexByte(f[1], ':'); i >= 0 {
				seen[f[1][i+1:]] = struct{}{}
			}
		}
	}
	parked.at, parked.n = time.Now(), len(seen)
	return parked.n
}

// Pressure reports whether most of the port range (70 %) is parked in TIME_WAIT.
func Pressure() bool { return TimeWait() > portRange*7/10 && portsParked() > portRange*7/10 }

var waited atomic.Int64

// Waited is the total time (ns) this process has spent waiting for the sandbox to recover; a per-case
// watchdog uses it to tell a stalled case from a case that was made to wait.
func Waited() int64 { return waited.Load() }

func nap(d time.Duration) {
	time.Sleep(d)
	waited.Add(int64(d))
}

// Calm waits (at most 75 s, TIME_WAIT lasts 60 s) until half of the port range is free again.
func Calm() {
	for i := 0; i < 150 && TimeWait() > portRange/2 && portsParked() > portRange/2; i++ {
		nap(500 * time.Millisecond)
	}
}

// Listen opens a loopback listener on a free port, waiting (up to about 90 s) for one when the
// machine has none left.
func Listen() net.Listener {
	if Pressure() {
		Calm()
	}
	var err error
	for i := 0; ; i++ {
		var ln net.Listener
		ln, err = net.Listen("tcp", "127.0.0.1:0")
		if err == nil {
			return ln
		}
		if !transient(err) || i >= len(waits) {
			break
		}
		nap(waits[i])
	}
	panic(err)
}

// Dial connects to addr, waiting for a local port when the machine has none left.
func Dial(addr string, timeout time.Duration) (net.Conn, error) {
	var err error
	for i := 0; ; i++ {
		var c net.Conn
		c, err = net.DialTimeout("tcp", addr, timeout)
		if err == nil {
			if tc, ok := c.(*net.TCPConn); ok {
				return &Conn{tc}, nil
			}
			return c, nil
		}
		if !transient(err) || i >= 4 {
			return nil, err
		}
		nap(waits[i])
	}
}

// Server is httptest.NewUnstartedServer on a listener from Listen.
func Server(h http.Handler) *httptest.Server {
	return &httptest.Server{Listener: Listen(), Config: &http.Server{Handler: h}}
}

// Conn is a harness client connection. Its Close resets the connection instead of going through
// FIN/TIME_WAIT: the harness closes a connection when it is done with the exchange (or wants to be seen
// hanging up), and a client port parked for 60 s per exchange is what exhausts the sandbox's port range.
type Conn struct{ *net.TCPConn }

func (c *Conn) Close() error {
	c.TCPConn.SetLinger(0)
	return c.TCPConn.Close()
}
