// Package px builds a real reservoir proxy in front of a scripted origin and gives the
// checks three byte-exact clients: plain absolute-URI proxying, a kept-alive CONNECT
// tunnel, and a raw socket.
package px

import (
	"bufio"
	"bytes"
	"context"
	"crypto/ecdsa"
	"crypto/elliptic"
	"crypto/rand"
	"crypto/tls"
	"crypto/x509"
	"crypto/x509/pkix"
	"encoding/pem"
	"errors"
	"fmt"
	"io"
	"log"
	"math/big"
	"net"
	"net/http"
	"net/http/httptest"
	"os"
	"path/filepath"
	"strings"
	"sync"
	"time"
	"verifharness/internal/metricsx"
	"verifharness/internal/netx"

	"reservoir/config"
	"reservoir/proxy"
	"reservoir/proxy/certs"
	"reservoir/utils/bytesize"
	"reservoir/utils/duration"
)

// Opts are the configuration choices a generator draws.
type Opts struct {
	Backend       string        `json:"backend"` // "memory" | "file"
	Shards        int           `json:"shards"`
	MaxSize       int64         `json:"max_size"`
	Cleanup       time.Duration `json:"cleanup"`
	IgnoreCC      bool          `json:"ignore_cc"`
	ForceDefault  bool          `json:"force_default"`
	DefaultMaxAge time.Duration `json:"default_max_age"`
	DefaultZero   bool          `json:"default_zero,omitempty"` // default_max_age is exactly 0 (DefaultMaxAge == 0 means "the harness's usual hour")
	RetryInvalid  bool          `json:"retry_invalid_range"`
	Retry416      bool          `json:"retry_416"`
	MemBudget     int           `json:"mem_budget"`

	defaulted bool
}

func (o Opts) withDefaults() Opts {
	if o.defaulted {
		return o
	}
	o.defaulted = true
	if o.Backend == "" {
		o.Backend = "memory"
	}
	if o.Shards == 0 {
		o.Shards = 16
	}
	if o.MaxSize == 0 {
		o.MaxSize = 1 << 30
	}
	if o.Cleanup == 0 {
		o.Cleanup = time.Hour
	}
	if o.DefaultMaxAge == 0 {
		o.DefaultMaxAge = time.Hour
	}
	if o.MemBudget == 0 {
		o.MemBudget = 50
	}
	if o.MemBudget < 0 {
		o.MemBudget = 0 // -1 requests a real 0 %
	}
	return o
}

type syncBuf struct {
	mu sync.Mutex
	b  bytes.Buffer
}

func (s *syncBuf) Write(p []byte) (int, error) {
	s.mu.Lock()
	defer s.mu.Unlock()
	return s.b.Write(p)
}
func (s *syncBuf) String() string {
	s.mu.Lock()
	defer s.mu.Unlock()
	return s.b.String()
}

// Env is one proxy instance.
type Env struct {
	Opts     Opts
	Cfg      *config.Config
	Proxy    *proxy.Proxy
	Srv      *httptest.Server
	ErrLog   *syncBuf
	CacheDir string
	cancel   context.CancelFunc
}

var (
	caOnce sync.Once
	caObj  *certs.PrivateCA
	caPool *x509.CertPool
	caErr  error
	caCert *x509.Certificate
)

// TestCA returns the per-process test CA loaded through certs.NewPrivateCA and its pool.
func TestCA() (*certs.PrivateCA, *x509.CertPool, *x509.Certificate) {
	caOnce.Do(func() {
		dir, err := os.MkdirTemp("", "verif-ca-")
		if err != nil {
			caErr = err
			return
		}
		certFile, keyFile, cert, err := WriteCA(dir, time.Hour*24)
		if err != nil {
			caErr = err
			return
		}
		caObj, caErr = certs.NewPrivateCA(certFile, keyFile)
		caPool = x509.NewCertPool()
		caPool.AddCert(cert)
		caCert = cert
	})
	if caErr != nil {
		panic(caErr)
	}
	return caObj, caPool, caCert
}

// WriteCA generates a CA certificate + PKCS8 key as PEM files in dir.
func WriteCA(dir string, valid time.Duration) (certFile, keyFile string, cert *x509.Certificate, err error) {
	priv, err := ecdsa.GenerateKey(elliptic.P256(), rand.Reader)
	if err != nil {
		return "", "", nil, err
	}
	serial, _ := rand.Int(rand.Reader, new(big.Int).Lsh(big.NewInt(1), 120))
	tmpl := x509.Certificate{
		SerialNumber: serial, Subject: pkix.Name{Organization: []string{"verif-test-ca"}, CommonName: "verif test CA"},
		NotBefore: time.Now().Add(-time.Minute), NotAfter: time.Now().Add(valid),
		KeyUsage: x509.KeyUsageCertSign | x509.KeyUsageDigitalSignature, BasicConstraintsValid: true, IsCA: true,
	}
	der, err := x509.CreateCertificate(rand.Reader, &tmpl, &tmpl, &priv.PublicKey, priv)
	if err != nil {
		return "", "", nil, err
	}
	cert, err = x509.ParseCertificate(der)
	if err != nil {
		return "", "", nil, err
	}
	certFile, keyFile = filepath.Join(dir, "ca.crt"), filepath.Join(dir, "ca.key")
	if err = os.WriteFile(certFile, pem.EncodeToMemory(&pem.Block{Type: "CERTIFICATE", Bytes: der}), 0o600); err != nil {
		return
	}
	kb, _ := x509.MarshalPKCS8PrivateKey(priv)
	err = os.WriteFile(keyFile, pem.EncodeToMemory(&pem.Block{Type: "PRIVATE KEY", Bytes: kb}), 0o600)
	return
}

// SetBase sets the committed base value of a property, as a loaded configuration file would.
func SetBase[T comparable](p *config.ConfigProp[T], v T) {
	p.Stage(v)
	p.CommitStaged()
}

// NewConfig builds a config from Opts.
func NewConfig(o Opts, cacheDir string) *config.Config {
	o = o.withDefaults()
	cfg := config.NewDefault()
	// base values (not CLI-style overrides), so that later run-time updates take effect
	SetBase(&cfg.Proxy.UpstreamDefaultHttps, false)
	SetBase(&cfg.Proxy.RetryOnRange416, o.Retry416)
	SetBase(&cfg.Proxy.RetryOnInvalidRange, o.RetryInvalid)
	SetBase(&cfg.Proxy.CachePolicy.IgnoreCacheControl, o.IgnoreCC)
	SetBase(&cfg.Proxy.CachePolicy.ForceDefaultMaxAge, o.ForceDefault)
	SetBase(&cfg.Proxy.CachePolicy.DefaultMaxAge, duration.Duration(o.DefaultMaxAge))
	if o.DefaultZero {
		SetBase(&cfg.Proxy.CachePolicy.DefaultMaxAge, duration.Duration(0))
	}
	SetBase(&cfg.Cache.File.Dir, cacheDir)
	if o.Backend == "file" {
		SetBase(&cfg.Cache.Type, config.CacheTypeFile)
	} else {
		SetBase(&cfg.Cache.Type, config.CacheTypeMemory)
	}
	SetBase(&cfg.Cache.LockShards, o.Shards)
	SetBase(&cfg.Cache.MaxCacheSize, bytesize.ByteSize(o.MaxSize))
	SetBase(&cfg.Cache.CleanupInterval, duration.Duration(o.Cleanup))
	SetBase(&cfg.Cache.Memory.MemoryBudgetPercent, o.MemBudget)
	return cfg
}

// New builds and starts a proxy.
func New(o Opts) *Env {
	o = o.withDefaults()
	metricsx.Reset()
	dir, err := os.MkdirTemp("", "verif-cache-")
	if err != nil {
		panic(err)
	}
	cfg := NewConfig(o, dir)
	ca, _, _ := TestCA()
	ctx, cancel := context.WithCancel(context.Background())
	p, err := proxy.NewProxy(cfg, ca, ctx)
	if err != nil {
		panic(err)
	}
	e := &Env{Opts: o, Cfg: cfg, Proxy: p, ErrLog: &syncBuf{}, CacheDir: dir, cancel: cancel}
	e.Srv = netx.Server(p)
	e.Srv.Config.ErrorLog = log.New(e.ErrLog, "", 0)
	e.Srv.Start()
	return e
}

// Addr is the proxy's host:port.
func (e *Env) Addr() string { return e.Srv.Listener.Addr().String() }

// Panics returns the "http: panic serving" lines net/http logged for the proxy handler.
func (e *Env) Panics() string {
	s := e.ErrLog.String()
	if i := strings.Index(s, "http: panic serving"); i >= 0 {
		end := i + 1500
		if end > len(s) {
			end = len(s)
		}
		return s[i:end]
	}
	return ""
}

func (e *Env) Close() {
	// httptest.Server.Close waits for running handlers; a handler that hangs inside the proxy (which is
	// what some checks are looking for) must not take the harness down with it: abandon it after 3 s
	done := make(chan struct{})
	go func() {
		e.Srv.CloseClientConnections()
		e.Srv.Close()
		e.Proxy.Destroy()
		close(done)
	}()
	select {
	case <-done:
	case <-time.After(3 * time.Second):
	}
	e.cancel()
	if tr, ok := http.DefaultTransport.(*http.Transport); ok {
		tr.CloseIdleConnections()
	}
	os.RemoveAll(e.CacheDir)
}

// H is one header field as put on the wire.
type H struct {
	K string `json:"k"`
	V string `json:"v"`
}

// Req is a client request with byte-level control.
type Req struct {
	Method  string `json:"method"`
	Host    string `json:"host"`   // authority (host:port) of the origin
	Target  string `json:"target"` // raw path + optional ?query, starts with "/"
	Headers []H    `json:"headers,omitempty"`
	Body    string `json:"body,omitempty"`
	Chunked bool   `json:"chunked,omitempty"`
	ReqID   string `json:"req_id,omitempty"`
	// WantLen > 0: the body length the scripted origin sends for this request. Only used to recognise the
	// silent form of the body hand-over artefact (see Plain): a body-carrying exchange whose chunked relay
	// was cut and ended normally is repeated like one that ended in a framing error.
	WantLen int `json:"-"`
}

// cut reports whether resp shows the body hand-over artefact for r.
func (r Req) cut(resp *Resp, err error) bool {
	if err != nil || resp == nil || !r.hasBody() {
		return false
	}
	return resp.ReadErr != nil || (r.WantLen > 0 && len(resp.Body) < r.WantLen && r.Method != "HEAD" && resp.Status != 304 && resp.Status != 204)
}

// Resp is what the client got.
type Resp struct {
	Status  int
	Proto   string
	Header  http.Header
	Body    []byte
	ReadErr error // framing not satisfied / connection error while reading the body
	CL      int64 // Content-Length as parsed by net/http (-1 unknown)
	Chunked bool
	T0, T1  time.Time // just before send / after last byte
	Retried int       // how often the exchange was repeated because of the net/http body hand-over artefact (see Plain)
}

func (r Req) bytes(absolute bool) []byte {
	var b bytes.Buffer
	target := r.Target
	if absolute {
		target = "http://" + r.Host + r.Target
	}
	fmt.Fprintf(&b, "%s %s HTTP/1.1\r\nHost: %s\r\n", r.Method, target, r.Host)
	if r.ReqID != "" {
		fmt.Fprintf(&b, "X-Verif-Req: %s\r\n", r.ReqID)
	}
	for _, h := range r.Headers {
		fmt.Fprintf(&b, "%s: %s\r\n", h.K, h.V)
	}
	hasBody := r.Body != "" || r.Chunked || r.Method == "POST" || r.Method == "PUT" || r.Method == "PATCH"
	if hasBody {
		if r.Chunked {
			b.WriteString("Transfer-Encoding: chunked\r\n\r\n")
			body := []byte(r.Body)
			for len(body) > 0 {
				n := len(body)
				if n > 700 {
					n = 700
				}
				fmt.Fprintf(&b, "%x\r\n", n)
				b.Write(body[:n])
				b.WriteString("\r\n")
				body = body[n:]
			}
			b.WriteString("0\r\n\r\n")
		} else {
			fmt.Fprintf(&b, "Content-Length: %d\r\n\r\n", len(r.Body))
			b.WriteString(r.Body)
		}
	} else {
		b.WriteString("\r\n")
	}
	return b.Bytes()
}

// ErrNoResponse means the connection ended without a parseable status line.
var ErrNoResponse = errors.New("no well-formed HTTP response")

func readResp(br *bufio.Reader, method string, t0 time.Time) (*Resp, error) {
	resp, err := http.ReadResponse(br, &http.Request{Method: method})
	if err != nil {
		return nil, fmt.Errorf("%w: %v", ErrNoResponse, err)
	}
	body, rerr := io.ReadAll(resp.Body)
	resp.Body.Close()
	out := &Resp{Status: resp.StatusCode, Proto: resp.Proto, Header: resp.Header, Body: body, ReadErr: rerr, CL: resp.ContentLength, T0: t0, T1: time.Now()}
	for _, te := range resp.TransferEncoding {
		if te == "chunked" {
			out.Chunked = true
		}
	}
	return out, nil
}

// Timeout for one exchange; generous, a hang is reported as an error by the caller.
var Timeout = 20 * time.Second

// hasBody reports whether r carries a request body.
func (r Req) hasBody() bool {
	return r.Body != "" || r.Chunked || r.Method == "POST" || r.Method == "PUT" || r.Method == "PATCH"
}

// Plain sends one request through the proxy in absolute form on a fresh connection.
//
// A request that carries a body is retried (at most twice) when its response body is cut short:
// handing an incoming net/http server request with a body to an http.Client occasionally makes
// net/http's transport close the upstream connection under load ("use of closed network
// connection" right after the response header). A plain net/http forwarding proxy without any
// reservoir code shows the same behaviour at the same rate (about 1 in 1500-9000 exchanges on a
// busy machine), so a single occurrence says nothing about reservoir; a persistent one does.
func (e *Env) Plain(r Req) (*Resp, error) {
	resp, err := e.plainOnce(r)
	for i := 0; i < 2 && r.cut(resp, err); i++ {
		resp, err = e.plainOnce(r)
		if resp != nil {
			resp.Retried = i + 1
		}
	}
	return resp, err
}

func (e *Env) plainOnce(r Req) (*Resp, error) {
	c, err := netx.Dial(e.Addr(), 5*time.Second)
	if err != nil {
		return nil, err
	}
	defer c.Close()
	c.SetDeadline(time.Now().Add(Timeout))
	t0 := time.Now()
	if _, err := c.Write(r.bytes(true)); err != nil {
		return nil, err
	}
	return readResp(bufio.NewReader(c), r.Method, t0)
}

// Tunnel is one kept-alive CONNECT tunnel.
type Tunnel struct {
	raw  net.Conn
	tls  *tls.Conn
	br   *bufio.Reader
	Leaf *x509.Certificate
}

// Connect opens a CONNECT tunnel to authority (host:port) and completes the TLS
// handshake against the test CA.
func (e *Env) Connect(authority string) (*Tunnel, error) {
	c, err := netx.Dial(e.Addr(), 5*time.Second)
	if err != nil {
		return nil, err
	}
	c.SetDeadline(time.Now().Add(Timeout))
	fmt.Fprintf(c, "CONNECT %s HTTP/1.1\r\nHost: %s\r\n\r\n", authority, authority)
	br := bufio.NewReader(c)
	resp, err := http.ReadResponse(br, &http.Request{Method: "CONNECT"})
	if err != nil {
		c.Close()
		return nil, fmt.Errorf("%w: CONNECT: %v", ErrNoResponse, err)
	}
	if resp.StatusCode != 200 {
		c.Close()
		return nil, fmt.Errorf("CONNECT status %d", resp.StatusCode)
	}
	if br.Buffered() > 0 {
		c.Close()
		return nil, fmt.Errorf("CONNECT: %d unexpected bytes after the 200", br.Buffered())
	}
	host, _, err := net.SplitHostPort(authority)
	if err != nil {
		host = authority
	}
	_, pool, _ := TestCA()
	tc := tls.Client(c, &tls.Config{RootCAs: pool, ServerName: host})
	if err := tc.Handshake(); err != nil {
		c.Close()
		return nil, fmt.Errorf("tls handshake: %w", err)
	}
	t := &Tunnel{raw: c, tls: tc, br: bufio.NewReader(tc)}
	if cs := tc.ConnectionState(); len(cs.PeerCertificates) > 0 {
		t.Leaf = cs.PeerCertificates[0]
	}
	return t, nil
}

// Do sends one origin-form request on the tunnel and reads its response.
func (t *Tunnel) Do(r Req) (*Resp, error) {
	return t.doOnce(r)
}

func (t *Tunnel) doOnce(r Req) (*Resp, error) {
	t.raw.SetDeadline(time.Now().Add(Timeout))
	t0 := time.Now()
	if _, err := t.tls.Write(r.bytes(false)); err != nil {
		return nil, err
	}
	return readResp(t.br, r.Method, t0)
}

// DoPipelined writes all requests with one Write (a pipelining client: the later requests reach the proxy
// together with the first one's tail) and then reads the answers in order. It stops at the first failure.
func (t *Tunnel) DoPipelined(rs []Req) ([]*Resp, error) {
	t.raw.SetDeadline(time.Now().Add(Timeout))
	t0 := time.Now()
	var all []byte
	for _, r := range rs {
		all = append(all, r.bytes(false)...)
	}
	if _, err := t.tls.Write(all); err != nil {
		return nil, err
	}
	var out []*Resp
	for _, r := range rs {
		resp, err := readResp(t.br, r.Method, t0)
		if err != nil {
			return out, err
		}
		out = append(out, resp)
	}
	return out, nil
}

func (t *Tunnel) Close() { t.tls.Close(); t.raw.Close() }

// Via sends r over the given transport: "plain" (fresh connection) or "tunnel" (fresh tunnel).
func (e *Env) Via(transport string, r Req) (*Resp, error) {
	if transport == "tunnel" {
		var resp *Resp
		var err error
		for i := 0; i < 3; i++ {
			var t *Tunnel
			t, err = e.Connect(r.Host)
			if err != nil {
				return nil, err
			}
			resp, err = t.Do(r)
			t.Close()
			if !r.cut(resp, err) {
				break
			}
			resp.Retried = i + 1
		}
		return resp, err
	}
	return e.Plain(r)
}

// Stream is an exchange whose body the caller reads at its own pace.
type Stream struct {
	Resp  *http.Response
	T0    time.Time
	conn  net.Conn
	extra io.Closer
}

func (s *Stream) Close() {
	s.conn.Close()
	if s.extra != nil {
		s.extra.Close()
	}
}

// Open sends r over a fresh connection (plain) or a fresh tunnel and returns after the response
// header has been read.
func (e *Env) Open(transport string, r Req) (*Stream, error) {
	if transport == "tunnel" {
		t, err := e.Connect(r.Host)
		if err != nil {
			return nil, err
		}
		t.raw.SetDeadline(time.Now().Add(Timeout))
		t0 := time.Now()
		if _, err := t.tls.Write(r.bytes(false)); err != nil {
			t.Close()
			return nil, err
		}
		resp, err := http.ReadResponse(t.br, &http.Request{Method: r.Method})
		if err != nil {
			t.Close()
			return nil, fmt.Errorf("%w: %v", ErrNoResponse, err)
		}
		return &Stream{Resp: resp, T0: t0, conn: t.raw, extra: t.tls}, nil
	}
	c, err := netx.Dial(e.Addr(), 5*time.Second)
	if err != nil {
		return nil, err
	}
	c.SetDeadline(time.Now().Add(Timeout))
	t0 := time.Now()
	if _, err := c.Write(r.bytes(true)); err != nil {
		c.Close()
		return nil, err
	}
	resp, err := http.ReadResponse(bufio.NewReader(c), &http.Request{Method: r.Method})
	if err != nil {
		c.Close()
		return nil, fmt.Errorf("%w: %v", ErrNoResponse, err)
	}
	return &Stream{Resp: resp, T0: t0, conn: c}, nil
}

// Pending is a request that has been sent but whose response has not been read yet.
type Pending struct {
	T0     time.Time
	method string
	conn   net.Conn
	br     *bufio.Reader
	extra  io.Closer
}

// Start sends r (fresh connection or fresh tunnel) and returns without reading the response.
func (e *Env) Start(transport string, r Req) (*Pending, error) {
	if transport == "tunnel" {
		t, err := e.Connect(r.Host)
		if err != nil {
			return nil, err
		}
		t.raw.SetDeadline(time.Now().Add(Timeout))
		t0 := time.Now()
		if _, err := t.tls.Write(r.bytes(false)); err != nil {
			t.Close()
			return nil, err
		}
		return &Pending{T0: t0, method: r.Method, conn: t.raw, br: t.br, extra: t.tls}, nil
	}
	c, err := netx.Dial(e.Addr(), 5*time.Second)
	if err != nil {
		return nil, err
	}
	c.SetDeadline(time.Now().Add(Timeout))
	t0 := time.Now()
	if _, err := c.Write(r.bytes(true)); err != nil {
		c.Close()
		return nil, err
	}
	return &Pending{T0: t0, method: r.Method, conn: c, br: bufio.NewReader(c)}, nil
}

// Abort hangs up.
func (p *Pending) Abort() {
	p.conn.Close()
}

// Header reads the response header; the body is then read from Stream.Resp.Body.
func (p *Pending) Header() (*Stream, error) {
	resp, err := http.ReadResponse(p.br, &http.Request{Method: p.method})
	if err != nil {
		p.conn.Close()
		return nil, fmt.Errorf("%w: %v", ErrNoResponse, err)
	}
	return &Stream{Resp: resp, T0: p.T0, conn: p.conn, extra: p.extra}, nil
}
