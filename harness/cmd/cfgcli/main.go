// cfgcli reproduces the start-up sequence of reservoir's main for the configuration system:
// load the file, apply command-line overrides, then apply the API-style updates given in
// CFGCLI_UPDATES (a JSON list of documents), and print what is effective and what is on disk.
package main

import (
	"encoding/json"
	"fmt"
	"os"
	"sync"
	"time"

	"reservoir/config"

	"verifharness/internal/cfgkit"
)

type out struct {
	AfterFlags   map[string]string   `json:"after_flags"`
	AfterUpdates []map[string]string `json:"after_updates"`
	UpdateErrors []string            `json:"update_errors"`
	File         string              `json:"file"`
	Reloaded     map[string]string   `json:"reloaded"`
	LoadError    string              `json:"load_error,omitempty"`
	// Notified[i]: what the listeners of the settings were told while update i was applied ("path=value")
	Notified    [][]string `json:"notified"`
	ReloadReset bool       `json:"reload_reset,omitempty"` // the start-up after the run found the file unusable and reset it to the defaults
}

func main() {
	var o out
	cfg, err := config.LoadOrDefault("var/config.json")
	if err != nil {
		o.LoadError = err.Error()
		json.NewEncoder(os.Stdout).Encode(o)
		return
	}
	config.OverrideFromFlags(cfg)
	o.AfterFlags = cfgkit.Vector(cfg)
	var nmu sync.Mutex
	var told []string
	cfgkit.SubscribeAll(cfg, func(path, value string) {
		nmu.Lock()
		told = append(told, path+"="+value)
		nmu.Unlock()
	})
	var updates []map[string]any
	if s := os.Getenv("CFGCLI_UPDATES"); s != "" {
		if err := json.Unmarshal([]byte(s), &updates); err != nil {
			fmt.Fprintln(os.Stderr, "bad CFGCLI_UPDATES:", err)
			os.Exit(3)
		}
	}
	for _, u := range updates {
		_, err := config.UpdatePartialFromConfig(cfg, u)
		if err != nil {
			o.UpdateErrors = append(o.UpdateErrors, err.Error())
		} else {
			o.UpdateErrors = append(o.UpdateErrors, "")
		}
		o.AfterUpdates = append(o.AfterUpdates, cfgkit.Vector(cfg))
		time.Sleep(5 * time.Millisecond) // notifications are delivered on goroutines of their own
		nmu.Lock()
		o.Notified = append(o.Notified, told)
		told = nil
		nmu.Unlock()
	}
	if b, err := os.ReadFile("var/config.json"); err == nil {
		o.File = string(b)
	}
	if cfg2, err := config.LoadOrDefault("var/config.json"); err == nil {
		o.Reloaded = cfgkit.Vector(cfg2)
	}
	if b, err := os.ReadFile("var/config.json"); err == nil && string(b) != o.File {
		o.ReloadReset = true
	}
	json.NewEncoder(os.Stdout).Encode(o)
}
