// phcchild parses one PHC string and, if it is accepted, verifies a password against it - in a
// process of its own, because the failure it is there to observe (the runtime's fatal "out of
// memory") cannot be recovered from. The address space is capped so that a huge memory parameter
// fails in this process instead of inviting the kernel's OOM killer.
package main

import (
	"fmt"
	"os"
	"syscall"

	"reservoir/utils/phc"
)

func main() {
	lim := uint64(8 << 30)
	syscall.Setrlimit(syscall.RLIMIT_AS, &syscall.Rlimit{Cur: lim, Max: lim})
	if len(os.Args) < 3 {
		fmt.Println("usage: phcchild <phc> <password>")
		os.Exit(2)
	}
	p, err := phc.ParsePHC(os.Args[1])
	if err != nil {
		fmt.Println("rejected:", err)
		return
	}
	fmt.Println("verified:", p.VerifyArgon2id(os.Args[2]))
}
