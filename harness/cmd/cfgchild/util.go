package main

import (
	"crypto/tls"
	"io"
	"log"
	"net/url"
)

type tlsCert = tls.Certificate
type neturl = url.URL

func parseURL(s string) (*url.URL, error) { return url.Parse(s) }

func newLogger(w io.Writer) *log.Logger { return log.New(w, "", 0) }
