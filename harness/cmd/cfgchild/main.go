// cfgchild is the journaling child process of the configuration checks (C16, C18). A bad
// configuration value can panic in a subscriber goroutine and abort the whole process, so the
// system under test runs here and the parent learns from the journal which command killed it.
//
// Protocol (stdin/stdout, one JSON document per line): the child prints "J <seq>" before it
// executes command <seq> and "R <json>" when it is done.
package main

import (
	"bufio"
	"bytes"
	"context"
	"crypto/sha256"
	"encoding/json"
	"fmt"
	"io"
	"log/slog"
	"net/http"
	"net/http/httptest"
	"os"
	"os/signal"
	"sync"
	"syscall"
	"time"
	"verifharness/internal/netx"

	"reservoir/cache"
	"reservoir/config"
	"reservoir/db"
	"reservoir/logging"
	"reservoir/metrics"
	"reservoir/proxy"
	"reservoir/proxy/certs"
	"reservoir/webserver/api"
	"reservoir/webserver/auth"

	"verifharness/internal/cfgkit"
)

type cmd struct {
	Op      string         `json:"op"`
	Backend string         `json:"backend,omitempty"`
	Doc     map[string]any `json:"doc,omitempty"`
	Bytes   string         `json:"bytes,omitempty"`
	Limit   int64          `json:"limit,omitempty"`
}

type result struct {
	Err       string            `json:"err,omitempty"`
	Status    int               `json:"status,omitempty"`
	Vector    map[string]string `json:"vector,omitempty"`
	Notified  []string          `json:"notified,omitempty"`
	FileSha   string            `json:"file_sha,omitempty"`
	File      string            `json:"file,omitempty"`
	Runs      int64             `json:"cleanup_runs,omitempty"`
	Probe     string            `json:"probe,omitempty"`
	Workable  string            `json:"workable,omitempty"`
	LoadReset bool              `json:"load_reset,omitempty"`
	Restart   bool              `json:"restart_needed,omitempty"`
}

var (
	cfg      *config.Config
	theCache cache.Cache[int]
	notes    []string
	nmu      sync.Mutex
)

func note(path string, v any) {
	nmu.Lock()
	notes = append(notes, fmt.Sprintf("%s=%v", path, v))
	nmu.Unlock()
}

func rec[T comparable](path string, p *config.ConfigProp[T]) {
	p.OnChange(func(v T) { note(path, v) })
}

func subscribeAll(c *config.Config) {
	rec("proxy.listen", &c.Proxy.Listen)
	rec("proxy.ca_cert", &c.Proxy.CaCert)
	rec("proxy.ca_key", &c.Proxy.CaKey)
	rec("proxy.upstream_default_https", &c.Proxy.UpstreamDefaultHttps)
	rec("proxy.retry_on_range_416", &c.Proxy.RetryOnRange416)
	rec("proxy.retry_on_invalid_range", &c.Proxy.RetryOnInvalidRange)
	rec("proxy.cache_policy.ignore_cache_control", &c.Proxy.CachePolicy.IgnoreCacheControl)
	rec("proxy.cache_policy.default_max_age", &c.Proxy.CachePolicy.DefaultMaxAge)
	rec("proxy.cache_policy.force_default_max_age", &c.Proxy.CachePolicy.ForceDefaultMaxAge)
	rec("webserver.listen", &c.Webserver.Listen)
	rec("webserver.dashboard_disabled", &c.Webserver.DashboardDisabled)
	rec("webserver.api_disabled", &c.Webserver.ApiDisabled)
	rec("cache.max_cache_size", &c.Cache.MaxCacheSize)
	rec("cache.type", &c.Cache.Type)
	rec("cache.cleanup_interval", &c.Cache.CleanupInterval)
	rec("cache.lock_shards", &c.Cache.LockShards)
	rec("cache.file.dir", &c.Cache.File.Dir)
	rec("cache.memory.memory_budget_percent", &c.Cache.Memory.MemoryBudgetPercent)
	rec("logging.level", &c.Logging.Level)
	rec("logging.file", &c.Logging.File)
	rec("logging.max_size", &c.Logging.MaxSize)
	rec("logging.max_backups", &c.Logging.MaxBackups)
	rec("logging.compress", &c.Logging.Compress)
	rec("logging.to_stdout", &c.Logging.ToStdout)
}

func fileState(r *result) {
	b, err := os.ReadFile("var/config.json")
	if err != nil {
		r.FileSha = "missing"
		return
	}
	r.FileSha = fmt.Sprintf("%x", sha256.Sum256(b))
	if len(b) < 6000 {
		r.File = string(b)
	}
}

type fixedReader struct{ left int }

func (f *fixedReader) Read(p []byte) (int, error) {
	if f.left == 0 {
		return 0, io.EOF
	}
	n := min(len(p), f.left)
	for i := 0; i < n; i++ {
		p[i] = 'x'
	}
	f.left -= n
	return n, nil
}

// workable: start a proxy on a fresh load of the file and serve a cacheable GET twice.
func workable() string {
	c2, err := config.LoadOrDefault("var/config.json")
	if err != nil {
		return "load: " + err.Error()
	}
	org := httptest.NewServer(http.HandlerFunc(func(w http.ResponseWriter, r *http.Request) {
		w.Header().Set("Cache-Control", "max-age=60")
		w.Write([]byte("workable-body"))
	}))
	defer org.Close()
	c2.Proxy.UpstreamDefaultHttps.Overwrite(false)
	dir, _ := os.MkdirTemp("", "workable-cache-")
	defer os.RemoveAll(dir)
	c2.Cache.File.Dir.Overwrite(dir)
	ctx, cancel := context.WithCancel(context.Background())
	defer cancel()
	p, err := proxy.NewProxy(c2, noCA{}, ctx)
	if err != nil {
		return "NewProxy: " + err.Error()
	}
	defer p.Destroy()
	var errlog bytes.Buffer
	ps := netx.Server(p)
	ps.Config.ErrorLog = newLogger(&errlog)
	ps.Start()
	defer ps.Close()
	cl := &http.Client{Timeout: 5 * time.Second, Transport: &http.Transport{Proxy: func(*http.Request) (*neturl, error) { return parseURL(ps.URL) }}}
	for i := 0; i < 2; i++ {
		resp, err := cl.Get(org.URL + "/workable")
		if err != nil {
			return fmt.Sprintf("request %d: %v (server log: %s)", i, err, clip(errlog.String()))
		}
		b, _ := io.ReadAll(resp.Body)
		resp.Body.Close()
		if resp.StatusCode != 200 || string(b) != "workable-body" {
			return fmt.Sprintf("request %d: status %d body %q", i, resp.StatusCode, clip(string(b)))
		}
	}
	if bytes.Contains(errlog.Bytes(), []byte("panic")) {
		return "handler panic: " + clip(errlog.String())
	}
	return "ok"
}

// apiRoutes: the next start's dashboard API on whatever configuration is on disk - logging set up the way
// main does, then every read route asked with a live session. A handler that panics loses its connection.
func apiRoutes() (verdict string) {
	defer func() {
		if rec := recover(); rec != nil {
			verdict = fmt.Sprintf("panic while setting up: %v", rec)
		}
	}()
	c2, err := config.LoadOrDefault("var/config.json")
	if err != nil {
		return "ok" // refused at start-up: nothing is served
	}
	c2.Logging.ToStdout.Overwrite(false) // stdout is this child's protocol channel
	logging.Init(c2)
	if err := db.MigrateDatabases(); err != nil {
		return "ok"
	}
	mux := http.NewServeMux()
	if err := api.New(c2).RegisterHandlers(mux); err != nil {
		return "RegisterHandlers: " + err.Error()
	}
	var errlog bytes.Buffer
	srv := netx.Server(mux)
	srv.Config.ErrorLog = newLogger(&errlog)
	srv.Start()
	defer srv.Close()
	sess := auth.CreateSession(1)
	defer sess.Destroy()
	cl := &http.Client{Timeout: 5 * time.Second}
	for _, path := range []string{"/api/version", "/api/config", "/api/config/restart-required", "/api/log", "/api/metrics", "/api/metrics/cache", "/api/metrics/requests", "/api/metrics/system", "/api/auth/me"} {
		req, _ := http.NewRequest("GET", srv.URL+path, nil)
		req.AddCookie(&http.Cookie{Name: "reservoir.sid", Value: sess.ID})
		resp, err := cl.Do(req)
		if err != nil {
			return fmt.Sprintf("GET %s: no response (%v); server log: %s", path, err, clip(errlog.String()))
		}
		io.Copy(io.Discard, io.LimitReader(resp.Body, 1<<20))
		resp.Body.Close()
		if bytes.Contains(errlog.Bytes(), []byte("panic")) {
			return fmt.Sprintf("GET %s: handler panicked: %s", path, clip(errlog.String()))
		}
	}
	return "ok"
}

func startFrom(r *result) (verdict string) {
	defer func() {
		if rec := recover(); rec != nil {
			verdict = fmt.Sprintf("panic: %v", rec)
		}
	}()
	lc, err := config.LoadOrDefault("var/config.json")
	if err != nil {
		r.Err = err.Error()
		return "refused"
	}
	if _, err := json.Marshal(lc); err != nil {
		return "loaded configuration cannot be encoded (GET /api/config): " + err.Error()
	}
	r.Vector = cfgkit.Vector(lc)
	// Vector prints durations as nanoseconds
	want, wantNs := "97s", "97000000000"
	if r.Vector["cache.cleanup_interval"] == wantNs {
		want, wantNs = "98s", "98000000000"
	}
	if _, err := config.UpdatePartialFromConfig(lc, map[string]any{"cache": map[string]any{"cleanup_interval": want}}); err != nil {
		return "a valid update (cache.cleanup_interval=" + want + ") is refused on the loaded configuration: " + err.Error()
	}
	again, err := config.LoadOrDefault("var/config.json")
	if err != nil {
		return "after a valid update the file no longer loads: " + err.Error()
	}
	a, b := cfgkit.Vector(lc), cfgkit.Vector(again)
	for k, v := range a {
		if b[k] != v {
			return fmt.Sprintf("after a valid update the file loads to %s=%s, running %s", k, b[k], v)
		}
	}
	if a["cache.cleanup_interval"] != wantNs {
		return "the valid update did not take effect: cache.cleanup_interval=" + a["cache.cleanup_interval"]
	}
	if w := workable(); w != "ok" {
		return "not workable: " + w
	}
	return "ok"
}

func clip(s string) string {
	if len(s) > 300 {
		return s[:300]
	}
	return s
}

type noCA struct{}

func (noCA) GetCertForHost(string) (*tlsCert, error) { return nil, fmt.Errorf("no CA in this child") }

var _ certs.CertAuthority = noCA{}

// probe the limit the running cache really follows, through store-triggered eviction
func probe() string {
	if theCache == nil {
		return "no-cache"
	}
	far := time.Now().Add(time.Hour)
	limit := cfg.Cache.MaxCacheSize.Read().Bytes()
	if limit <= 0 || limit > 1<<26 {
		return "skipped"
	}
	// fill to twice the configured limit with 16 entries
	each := int(limit/8) + 1
	for i := 0; i < 16; i++ {
		if e, err := theCache.Cache(cache.FromString(fmt.Sprintf("probe-%d", i)), &fixedReader{left: each}, far, i); err == nil && e.Data != nil {
			e.Data.Close()
		}
	}
	present := 0
	for i := 0; i < 16; i++ {
		if _, _, err := theCache.GetMetadata(cache.FromString(fmt.Sprintf("probe-%d", i))); err == nil {
			present++
		}
	}
	for i := 0; i < 16; i++ {
		theCache.Delete(cache.FromString(fmt.Sprintf("probe-%d", i)))
	}
	if present < 16 {
		return "evicts"
	}
	return "keeps-all"
}

func main() {
	signal.Ignore(syscall.SIGXFSZ)
	slog.SetDefault(slog.New(slog.NewTextHandler(io.Discard, &slog.HandlerOptions{Level: slog.Level(100)})))
	os.MkdirAll("var", 0o755)
	in := bufio.NewReaderSize(os.Stdin, 1<<20)
	out := bufio.NewWriter(os.Stdout)
	seq := 0
	for {
		line, err := in.ReadBytes('\n')
		if len(line) == 0 && err != nil {
			return
		}
		var c cmd
		if json.Unmarshal(line, &c) != nil {
			continue
		}
		seq++
		fmt.Fprintf(out, "J %d\n", seq)
		out.Flush()
		var r result
		switch c.Op {
		case "init":
			metrics.Global = metrics.NewMetrics()
			cfg, err = config.LoadOrDefault("var/config.json")
			if err != nil {
				r.Err = err.Error()
				break
			}
			subscribeAll(cfg)
			ctx := context.Background()
			dir, _ := os.MkdirTemp("", "child-cache-")
			if c.Backend == "file" {
				theCache = cache.NewFileCache[int](cfg, dir, cfg.Cache.MaxCacheSize.Read().Bytes(), cfg.Cache.CleanupInterval.Read().Cast(), 64, ctx)
			} else if c.Backend == "memory" {
				theCache = cache.NewMemoryCache[int](cfg, 50, cfg.Cache.MaxCacheSize.Read().Bytes(), cfg.Cache.CleanupInterval.Read().Cast(), 64, ctx)
			}
		case "update", "update-fault":
			if cfg == nil {
				r.Err = "no config"
				break
			}
			var restore func()
			if c.Op == "update-fault" {
				var old syscall.Rlimit
				syscall.Getrlimit(syscall.RLIMIT_FSIZE, &old)
				syscall.Setrlimit(syscall.RLIMIT_FSIZE, &syscall.Rlimit{Cur: uint64(c.Limit), Max: old.Max})
				restore = func() { syscall.Setrlimit(syscall.RLIMIT_FSIZE, &old) }
			}
			st, err := config.UpdatePartialFromConfig(cfg, c.Doc)
			if restore != nil {
				restore()
			}
			r.Status = int(st)
			if err != nil {
				r.Err = err.Error()
			}
			time.Sleep(3 * time.Millisecond) // let asynchronous notifications land (and, if they are fatal, kill us here)
		case "state":
			if cfg != nil {
				r.Vector = cfgkit.Vector(cfg)
			}
			time.Sleep(2 * time.Millisecond)
			nmu.Lock()
			r.Notified = notes
			notes = nil
			nmu.Unlock()
			fileState(&r)
			r.Runs = metrics.Global.Cache.CleanupRuns.Get()
			r.Restart = config.IsRestartNeeded()
		case "probe":
			r.Probe = probe()
		case "workable":
			r.Workable = workable()
			if lc, err := config.LoadOrDefault("var/config.json"); err == nil {
				r.Vector = cfgkit.Vector(lc) // what the next start would run with
			}
		case "api":
			r.Probe = apiRoutes()
		case "start-from":
			// a start-up from whatever is on disk: load, then use the loaded configuration the way the running
			// program does (serve it through the API encoder, accept a valid update and persist it, run a proxy)
			os.WriteFile("var/config.json", []byte(c.Bytes), 0o644)
			r.Probe = startFrom(&r)
		case "load":
			os.WriteFile("var/config.json", []byte(c.Bytes), 0o644)
			before, _ := os.ReadFile("var/config.json")
			lc, err := config.LoadOrDefault("var/config.json")
			if err != nil {
				r.Err = err.Error()
			} else {
				r.Vector = cfgkit.Vector(lc)
			}
			after, _ := os.ReadFile("var/config.json")
			r.LoadReset = !bytes.Equal(before, after)
		}
		b, _ := json.Marshal(r)
		fmt.Fprintf(out, "R %s\n", b)
		out.Flush()
	}
}
