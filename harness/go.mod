module verifharness

go 1.26

require (
	pgregory.net/rapid v1.3.0
	reservoir v0.0.0
)

replace reservoir => /repo
