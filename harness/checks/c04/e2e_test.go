package c04

import (
	"bytes"
	"fmt"
	"net/http"
	"reservoir/config"
	"strconv"
	"sync"
	"testing"
	"time"

	"pgregory.net/rapid"

	"verifharness/internal/ev"
	"verifharness/internal/gen"
	"verifharness/internal/origin"
	"verifharness/internal/px"
	"verifharness/internal/ref"
)

// E2ECase: the same resource is requested three times (other traffic before the third).
type E2ECase struct {
	Backend   string    `json:"backend"`
	Transport string    `json:"transport"`
	Method    string    `json:"method"`
	Status    int       `json:"status"`
	Fresh     gen.Fresh `json:"fresh"`
	Ignore    bool      `json:"ignore_cache_control"`
	Force     bool      `json:"force_default_max_age"`
	BodyLen   int       `json:"body_len"`
	PrimeGET  bool      `json:"prime_get"` // for non-GET methods: a storable GET of the same path is stored first
	Location  bool      `json:"location"`
	Runtime   bool      `json:"policy_set_at_runtime,omitempty"`
	// UnstorableFirst: before the three requests the origin answered one GET of the resource with something that
	// must not be stored ("no-store", "private", "max-age=0", "503", "404"); what it answers afterwards is judged
	// on its own - an earlier unstorable answer says nothing about later ones
	UnstorableFirst string `json:"unstorable_answer_first,omitempty"`
	// StoredEarlier: before the three requests the operator had directives ignored for a while (run-time switch on,
	// one GET that stores the answer whatever it says, switch off again): the entry from that period is still there
	StoredEarlier bool `json:"stored_while_directives_were_ignored,omitempty"`
	// EarlierRange: with StoredEarlier, the first judged request asks for a byte range of the resource (a slice
	// cut from the store is "answered from the store" too)
	EarlierRange bool `json:"earlier_range,omitempty"`
	Via416       bool `json:"via_416"` // GET only: the first request carries a Range that the origin answers with 416 and the opposite freshness headers; the proxy's retry gets the scripted answer
}

func noBody(st int) bool { return st == 204 || st == 205 || st == 304 }

var subE2E = ev.Register("storable-e2e",
	"three sequential requests for one resource (method x origin status x freshness header set x cache_policy x backend x transport; unrelated and other-method traffic before the third; optionally an entry for the resource was stored earlier, during a period in which the operator had directives ignored, or the origin's first answer for the resource was an unstorable one) against an origin whose body version increases with every request it serves; oracle: MUST-NOT-REUSE (non-GET, non-200, forbidding directive, max-age=0, expired) => every request reaches the origin and carries the version produced for it; MUST-REUSE (GET 200 storable with a lifetime >= 5 s) => requests 2 and 3 never reach the origin, are labelled HIT and carry request 1's body; non-trivial = verdict is not EITHER and the header set is not in the repository's tests; distinct by (method,status,header set,flags,backend)",
	func(c E2ECase, o *ev.Obs) *ev.Failure {
		var mu sync.Mutex
		ver := 0
		org := origin.New(func(w http.ResponseWriter, r *http.Request, _ []byte, e *origin.Entry) {
			if r.URL.Path != "/r" {
				e.Status = 200
				w.Header().Set("Cache-Control", "max-age=60")
				w.Write([]byte("other"))
				return
			}
			mu.Lock()
			ver++
			v := ver
			mu.Unlock()
			e.Ver = v
			h := w.Header()
			status := c.Status
			fr := c.Fresh
			if c.Via416 && r.Header.Get("Range") != "" {
				// the 416 carries the opposite kind of freshness information: it must not decide about the retried answer
				opposite := "max-age=600"
				if ref.ReadFreshness(c.Fresh.CC, c.Fresh.Expires, time.Now()).Storable(c.Ignore) != ref.MustNot {
					opposite = "no-store"
				}
				h.Set("Cache-Control", opposite)
				h.Set("Content-Range", "bytes */"+strconv.Itoa(c.BodyLen))
				e.Status = 416
				e.Commit()
				w.WriteHeader(416)
				return
			}
			if r.Header.Get("X-Verif-Req") == "before" {
				switch c.UnstorableFirst {
				case "503", "404":
					status, fr = map[string]int{"503": 503, "404": 404}[c.UnstorableFirst], gen.Fresh{}
				default:
					status, fr = 200, gen.Fresh{CC: []string{c.UnstorableFirst}}
				}
			}
			if r.Header.Get("X-Verif-Req") == "prime" {
				status, fr = 200, gen.Fresh{CC: []string{"max-age=600"}}
			}
			for _, l := range fr.CC {
				h.Add("Cache-Control", l)
			}
			for _, l := range fr.Expires {
				h.Add("Expires", l)
			}
			if fr.Date != "" {
				h["Date"] = []string{fr.Date}
			}
			if c.Location && status >= 300 && status < 400 {
				h.Set("Location", "/elsewhere")
			}
			h.Set("Content-Type", "application/octet-stream")
			e.Status = status
			e.Commit()
			body := origin.Content("r", v, c.BodyLen)
			if !noBody(status) {
				h.Set("Content-Length", strconv.Itoa(len(body)))
			}
			w.WriteHeader(status)
			if r.Method != "HEAD" && !noBody(status) {
				w.Write(body)
			}
		})
		defer org.Close()
		// Runtime: the proxy starts under the opposite policy and is switched to the case's policy through the
		// public update path before the first request (the store decision must follow the setting in force)
		startIgnore, startForce := c.Ignore, c.Force
		if c.Runtime {
			startIgnore, startForce = !c.Ignore, !c.Force
		}
		env := px.New(px.Opts{Backend: c.Backend, IgnoreCC: startIgnore, ForceDefault: startForce, DefaultMaxAge: time.Hour, Retry416: true})
		defer env.Close()
		if c.Runtime {
			o.Class("policy-set-at-runtime")
			if _, err := config.UpdatePartialFromConfig(env.Cfg, map[string]any{"proxy": map[string]any{"cache_policy": map[string]any{"ignore_cache_control": c.Ignore, "force_default_max_age": c.Force}}}); err != nil {
				return ev.Failf("store-e2e.harness", "policy update refused: %v", err)
			}
			time.Sleep(5 * time.Millisecond)
		}

		setPolicy := func(ignore, force bool) *ev.Failure {
			if _, err := config.UpdatePartialFromConfig(env.Cfg, map[string]any{"proxy": map[string]any{"cache_policy": map[string]any{"ignore_cache_control": ignore, "force_default_max_age": force}}}); err != nil {
				return ev.Failf("store-e2e.harness", "policy update refused: %v", err)
			}
			time.Sleep(5 * time.Millisecond)
			return nil
		}
		if c.UnstorableFirst != "" {
			o.Class("unstorable-answer-first:" + c.UnstorableFirst)
			if _, err := env.Via(c.Transport, px.Req{Method: "GET", Host: org.Addr(), Target: "/r", ReqID: "before"}); err != nil {
				return ev.Failf("store-e2e.harness", "GET before: %v", err)
			}
		}
		if c.StoredEarlier {
			o.Class("entry-from-a-period-of-ignored-directives")
			if f := setPolicy(true, c.Force); f != nil {
				return f
			}
			if _, err := env.Via(c.Transport, px.Req{Method: "GET", Host: org.Addr(), Target: "/r", ReqID: "earlier"}); err != nil {
				return ev.Failf("store-e2e.harness", "earlier GET: %v", err)
			}
			if f := setPolicy(c.Ignore, c.Force); f != nil {
				return f
			}
		}

		now := time.Now()
		fr := ref.ReadFreshness(c.Fresh.CC, c.Fresh.Expires, now)
		storable := fr.Storable(c.Ignore)
		life := fr.LifetimeOf(c.Force, time.Hour)
		verdict := "either"
		reason := ""
		switch {
		case c.Method != "GET":
			verdict, reason = "must-not-reuse", "method-"+c.Method
		case c.Status != 200:
			verdict, reason = "must-not-reuse", fmt.Sprintf("status-%d", c.Status)
		case storable == ref.MustNot:
			verdict, reason = "must-not-reuse", why(fr, c.Ignore)
		case life.Kind == "expired" || (life.Kind == "atmost" && life.D == 0 && !life.Until.After(now)):
			verdict, reason = "must-not-reuse", "lifetime-elapsed:expires-"+fr.Expires
		case storable == ref.Must && (life.Kind == "exact" || (life.Kind == "atmost" && (life.D >= 5*time.Second || life.Until.After(now.Add(5*time.Second))))):
			verdict, reason = "must-reuse", why(fr, c.Ignore)
		}
		o.Class("verdict:" + verdict)
		o.Class("method:" + c.Method)
		o.Classf("status:%d", c.Status)
		o.Classf("policy:ignore=%v,force=%v", c.Ignore, c.Force)
		o.Class("backend:" + c.Backend)
		o.NonTrivial = verdict != "either" && !inSuite(c.Fresh)
		o.Canon = fmt.Sprintf("%s|%d|%s|%v|%v|%s|%s|%d|%v", c.Method, c.Status, c.Fresh.Canon(), c.Ignore, c.Force, c.Backend, c.Transport, c.BodyLen, c.PrimeGET)

		do := func(id, method, target string) (*px.Resp, *ev.Failure) {
			req := px.Req{Method: method, Host: org.Addr(), Target: target, ReqID: id}
			if c.Via416 && id == "r1" && method == "GET" {
				req.Headers = []px.H{{K: "Range", V: "bytes=999999-"}}
			}
			if c.StoredEarlier && c.EarlierRange && id == "r1" && method == "GET" {
				req.Headers = []px.H{{K: "Range", V: "bytes=0-0"}}
			}
			if method == "POST" || method == "PUT" || method == "PATCH" {
				req.Body = "payload-" + id
			}
			resp, err := env.Via(c.Transport, req)
			if p := env.Panics(); p != "" {
				return nil, ev.Failf("store-e2e.handler-panic", "%s: proxy handler panicked: %s", id, p)
			}
			if err != nil {
				return nil, ev.Failf("store-e2e.no-response", "%s %s: no response: %v", id, method, err)
			}
			if resp.ReadErr != nil {
				return nil, ev.Failf("store-e2e.bad-framing", "%s: status %d, read error %v", id, resp.Status, resp.ReadErr)
			}
			return resp, nil
		}
		if c.PrimeGET && c.Method != "GET" {
			if _, f := do("prime", "GET", "/r"); f != nil {
				return f
			}
		}
		var first []byte
		for i := 1; i <= 3; i++ {
			id := fmt.Sprintf("r%d", i)
			if i == 3 {
				if _, f := do("other", "GET", "/other"); f != nil {
					return f
				}
				between := "HEAD"
				if c.Method == "HEAD" {
					between = "GET"
				}
				if _, f := do("between", between, "/r"); f != nil && c.Method != between {
					return f
				}
			}
			resp, f := do(id, c.Method, "/r")
			if f != nil {
				return f
			}
			if c.Via416 && i == 1 && c.Method == "GET" {
				// the ranged first request: 416, a slice or the full answer are all fine here (C07's subject); what counts is requests 2 and 3
				o.Class("first-request-via-416")
				if len(org.ByReqID(id)) == 0 {
					return ev.Failf("store-e2e.first-not-forwarded", "the first request never reached the origin")
				}
				if resp.Status == 200 && c.Status == 200 {
					first = resp.Body
				} else {
					first = nil
				}
				continue
			}
			if c.StoredEarlier && c.EarlierRange && i == 1 {
				// a slice, a refusal or the whole are all fine (C07's subject); where the answer came from is this check's
				if verdict == "must-not-reuse" && len(org.ByReqID(id)) == 0 {
					return ev.Failf("store-e2e.reused:entry-from-ignore-period:range:"+reason, "%s GET with Range (Cache-Control %q, Expires %q, ignore=%v now): answered %d from the entry stored while directives were ignored, without contacting the origin", id, c.Fresh.CC, c.Fresh.Expires, c.Ignore, resp.Status)
				}
				first = nil
				continue
			}
			if resp.Status != c.Status {
				return ev.Failf(fmt.Sprintf("store-e2e.status-changed:%d", c.Status), "%s: origin answers %d, client got %d", id, c.Status, resp.Status)
			}
			entries := org.ByReqID(id)
			hasBody := c.Method != "HEAD" && !noBody(c.Status)
			switch {
			case verdict == "must-not-reuse":
				if len(entries) == 0 && c.StoredEarlier {
					return ev.Failf("store-e2e.reused:entry-from-ignore-period:"+reason, "%s %s (origin status %d, Cache-Control %q, Expires %q, ignore=%v now): answered from the entry stored while directives were ignored, without contacting the origin (X-Cache %q)",
						id, c.Method, c.Status, c.Fresh.CC, c.Fresh.Expires, c.Ignore, resp.Header.Get("X-Cache"))
				}
				if len(entries) == 0 {
					return ev.Failf("store-e2e.reused:"+reason, "%s %s (origin status %d, Cache-Control %q, Expires %q, ignore=%v force=%v): answered without contacting the origin (X-Cache %q)",
						id, c.Method, c.Status, c.Fresh.CC, c.Fresh.Expires, c.Ignore, c.Force, resp.Header.Get("X-Cache"))
				}
				if hasBody && !bodyOfAny(resp.Body, entries, c.BodyLen) {
					return ev.Failf("store-e2e.wrong-version:"+reason, "%s: body is not the version the origin produced for this request (%s)", id, verList(entries))
				}
			case verdict == "must-reuse" && i > 1:
				if len(entries) != 0 || resp.Header.Get("X-Cache") != "HIT" {
					sig := "store-e2e.not-reused:" + reason
					if c.Backend == "file" && c.BodyLen == 0 {
						sig = "store-e2e.not-reused:file-backend-empty-body"
					}
					return ev.Failf(sig, "%s GET (Cache-Control %q, Expires %q, ignore=%v force=%v, backend %s, %d-byte body): storable and fresh but the origin was contacted %d time(s), X-Cache %q",
						id, c.Fresh.CC, c.Fresh.Expires, c.Ignore, c.Force, c.Backend, c.BodyLen, len(entries), resp.Header.Get("X-Cache"))
				}
				if first != nil && !bytes.Equal(resp.Body, first) {
					return ev.Failf("store-e2e.reused-body-differs", "%s: HIT body differs from the stored response", id)
				}
				if first == nil {
					first = resp.Body
				}
			default:
				if hasBody && len(entries) > 0 && !bodyOfAny(resp.Body, entries, c.BodyLen) && !bytes.Equal(resp.Body, first) {
					return ev.Failf("store-e2e.wrong-version:either", "%s: body is neither this request's version nor the first one", id)
				}
			}
			if i == 1 {
				first = resp.Body
				if len(entries) == 0 && !c.StoredEarlier {
					return ev.Failf("store-e2e.first-not-forwarded", "the first request never reached the origin")
				}
				if hasBody && len(entries) > 0 && !bodyOfAny(resp.Body, entries, c.BodyLen) {
					return ev.Failf("store-e2e.wrong-version:first", "r1: body is not a version produced for it")
				}
			}
		}
		return nil
	})

func bodyOfAny(body []byte, entries []origin.Entry, n int) bool {
	for _, e := range entries {
		if bytes.Equal(body, origin.Content("r", e.Ver, n)) {
			return true
		}
	}
	return false
}

func verList(entries []origin.Entry) string {
	s := "versions"
	for _, e := range entries {
		s += fmt.Sprintf(" %d", e.Ver)
	}
	return s
}

func drawE2E(t *rapid.T) E2ECase {
	c := E2ECase{
		Backend:   rapid.SampledFrom([]string{"memory", "file"}).Draw(t, "backend"),
		Transport: rapid.SampledFrom([]string{"plain", "plain", "plain", "tunnel"}).Draw(t, "transport"),
		Method:    rapid.SampledFrom([]string{"GET", "GET", "GET", "GET", "GET", "HEAD", "POST", "PUT", "PATCH", "DELETE", "OPTIONS"}).Draw(t, "method"),
		Status:    rapid.SampledFrom([]int{200, 200, 200, 200, 200, 200, 201, 203, 204, 301, 302, 307, 400, 401, 403, 404, 410, 500, 503}).Draw(t, "status"),
		Fresh:     gen.DrawFresh(t, time.Now()),
		Ignore:    rapid.IntRange(0, 3).Draw(t, "ignore") == 0,
		Force:     rapid.IntRange(0, 3).Draw(t, "force") == 0,
		BodyLen:   rapid.SampledFrom([]int{0, 1, 50, 50, 3000, 70000}).Draw(t, "len"),
		PrimeGET:  rapid.Bool().Draw(t, "prime"),
		Location:  rapid.Bool().Draw(t, "location"),
		Via416:    rapid.IntRange(0, 4).Draw(t, "via416") == 0,
		Runtime:   rapid.IntRange(0, 3).Draw(t, "runtime-policy") == 0,
	}
	if rapid.IntRange(0, 3).Draw(t, "plain-storable") == 0 {
		// keep the simplest storable shapes well represented
		c.Fresh = rapid.SampledFrom([]gen.Fresh{{}, {CC: []string{"max-age=60"}}, {CC: []string{"public, max-age=3600"}}, {CC: []string{"Max-Age=60"}},
			{CC: []string{"public"}, Expires: nil}, {CC: []string{"public", "max-age=100"}}}).Draw(t, "simple-fresh")
	}
	if !c.Ignore && rapid.IntRange(0, 4).Draw(t, "unstorable-first") == 0 {
		c.UnstorableFirst = rapid.SampledFrom([]string{"no-store", "private", "max-age=0", "503", "404"}).Draw(t, "unstorable")
	}
	if !c.Ignore && c.UnstorableFirst == "" && c.Method == "GET" && c.Status == 200 && !c.Via416 && rapid.IntRange(0, 5).Draw(t, "stored-earlier") == 0 {
		c.StoredEarlier = true
		c.EarlierRange = rapid.IntRange(0, 2).Draw(t, "earlier-range") == 0
		// make the forbidding directives frequent here: they are what the earlier period overrode
		if rapid.Bool().Draw(t, "earlier-forbidding") {
			c.Fresh = rapid.SampledFrom([]gen.Fresh{{CC: []string{"no-store"}}, {CC: []string{"private, max-age=600"}}, {CC: []string{"no-cache"}}, {CC: []string{"max-age=0"}}, {CC: []string{"No-Store, max-age=60"}},
				{Expires: []string{"0"}}, {Expires: []string{time.Now().Add(-time.Hour).UTC().Format(http.TimeFormat)}}, {Expires: []string{"Thu, 01 Jan 1970 00:00:00 GMT"}}}).Draw(t, "earlier-fresh")
			if len(c.Fresh.CC) == 0 {
				c.Force = true // an Expires-only answer stays in the store of the ignoring period only under a forced lifetime
			}
		}
	}
	return c
}

func TestStorableE2E(t *testing.T) {
	subE2E.CheckSalt(t, 2, ev.N(1500, 150000), drawE2E)
}
