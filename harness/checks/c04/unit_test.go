package c04

import (
	"testing"
	"time"

	"pgregory.net/rapid"
	"reservoir/proxy/headers"

	"verifharness/internal/ev"
	"verifharness/internal/gen"
	"verifharness/internal/ref"
)

func TestMain(m *testing.M) { ev.Main(m, "C04") }

// UnitCase is one response header set under one cache_policy.
type UnitCase struct {
	Fresh  gen.Fresh `json:"fresh"`
	Ignore bool      `json:"ignore_cache_control"`
}

var suiteCC = map[string]bool{"max-age=60": true, "no-cache": true, "no-store": true, "public, max-age=3600, no-cache": true, "max-age=0": true, "max-age=abc": true}

func inSuite(f gen.Fresh) bool { return len(f.Expires) == 0 && len(f.CC) == 1 && suiteCC[f.CC[0]] }

var subUnit = ev.Register("storable-unit",
	"Cache-Control/Expires line sets (0-3 lines, 0-4 directives, any letter case, malformed values, 8 Expires forms) x ignore_cache_control through headers.ParseHeaderDirective(...).ShouldCache, compared with the three-valued storability reference (MUST / MUST-NOT / EITHER) written from the property text and RFC 9111; non-trivial = verdict is not EITHER and the set is not one of the six strings of the repository's table test; distinct by canonical line set + flag",
	func(c UnitCase, o *ev.Obs) *ev.Failure {
		now := time.Now()
		fr := ref.ReadFreshness(c.Fresh.CC, c.Fresh.Expires, now)
		verdict := fr.Storable(c.Ignore)
		o.Class("verdict:" + string(verdict))
		o.Classf("ignore:%v", c.Ignore)
		o.Class("max-age:" + fr.MaxAge)
		o.Class("expires:" + fr.Expires)
		if fr.Shape != "" {
			o.Class("shape:" + fr.Shape)
		}
		o.NonTrivial = verdict != ref.Either && !inSuite(c.Fresh)
		o.Canon = c.Fresh.Canon() + "|" + map[bool]string{true: "ignore", false: "obey"}[c.Ignore]
		got := headers.ParseHeaderDirective(c.Fresh.Header()).ShouldCache(c.Ignore)
		if verdict == ref.Must && !got {
			return ev.Failf("storable.refused:"+why(fr, c.Ignore), "Cache-Control %q Expires %q ignore=%v: must be storable, ShouldCache=false", c.Fresh.CC, c.Fresh.Expires, c.Ignore)
		}
		if verdict == ref.MustNot && got {
			return ev.Failf("storable.accepted:"+why(fr, c.Ignore), "Cache-Control %q Expires %q ignore=%v: must not be stored, ShouldCache=true", c.Fresh.CC, c.Fresh.Expires, c.Ignore)
		}
		return nil
	})

// why names the feature of the header set that drives the verdict (the signature class).
func why(fr ref.Freshness, ignore bool) string {
	switch {
	case ignore:
		return "directives-ignored"
	case fr.Forbids:
		s := "forbidding-directive"
		if fr.Shape != "" {
			s += ":" + fr.Shape
		}
		return s
	case fr.MaxAge == "zero":
		return "max-age-zero"
	case fr.MaxAge == "positive":
		s := "positive-max-age"
		if fr.Shape != "" {
			s += ":" + fr.Shape
		}
		return s
	case fr.Expires == "past" || fr.Expires == "unparseable":
		return "expires-" + fr.Expires
	default:
		return "no-freshness-info:expires-" + fr.Expires
	}
}

func drawUnit(t *rapid.T) UnitCase {
	return UnitCase{Fresh: gen.DrawFresh(t, time.Now()), Ignore: rapid.IntRange(0, 3).Draw(t, "ignore") == 0}
}

func TestStorableUnit(t *testing.T) {
	subUnit.CheckSalt(t, 1, ev.N(60000, 3000000), drawUnit)
}

func TestReplay(t *testing.T) { ev.ReplayWitnesses(t) }
