package c08

import (
	"bytes"
	"compress/gzip"
	"fmt"
	"net/http"
	"net/textproto"
	"sort"
	"strconv"
	"strings"
	"testing"

	"pgregory.net/rapid"

	"verifharness/internal/ev"
	"verifharness/internal/origin"
	"verifharness/internal/px"
	"verifharness/internal/ref"
)

func TestMain(m *testing.M) { ev.Main(m, "C08") }

type Case struct {
	Backend     string      `json:"backend"`
	Transport   string      `json:"transport"`
	Method      string      `json:"method"`
	Target      string      `json:"target"`
	ReqHeaders  []px.H      `json:"req_headers"`
	ReqBodyLen  int         `json:"req_body_len"`
	ReqChunked  bool        `json:"req_chunked"`
	Status      int         `json:"status"`
	RespHeaders []origin.HV `json:"resp_headers"`
	RespBodyLen int         `json:"resp_body_len"`
	RespChunked bool        `json:"resp_chunked"`
	// RespGzip: the origin's body is gzip-coded and says so (Content-Encoding: gzip), whatever the request asked
	// for: a coding is part of what the origin sent, and a proxy passes it on as it is
	RespGzip   bool `json:"resp_gzip,omitempty"`
	Deliveries int  `json:"deliveries"` // 1 = relayed only, 2 = second request too (from the store when storable)
	// Via416: the client's GET carries a Range, the origin refuses ranged requests with 416 and gives its
	// scripted (non-200, hence never stored) answer to the proxy's retry without Range: the client must get
	// that answer - status, headers and body - not a mixture with the 416
	Via416     bool `json:"via_416,omitempty"`
	RangeFirst bool `json:"range_first"` // a Range GET of the same target is made between the deliveries (the raw origin ignores Range, so the proxy slices its stored copy)
}

func canon(k string) string { return textproto.CanonicalMIMEHeaderKey(k) }

// nominated returns the canonical names listed in Connection header values.
func nominated(values []string) map[string]bool {
	out := map[string]bool{}
	for _, v := range values {
		for _, tok := range strings.Split(v, ",") {
			if t := strings.TrimSpace(tok); t != "" {
				out[canon(t)] = true
			}
		}
	}
	return out
}

func isHop(name string, nom map[string]bool) bool {
	if nom[name] {
		return true
	}
	for _, h := range ref.HopByHop {
		if h == name {
			return true
		}
	}
	return false
}

func noBodyStatus(st int) bool { return st == 204 || st == 304 || (st >= 100 && st < 200) }

var sub = ev.Register("relay-roundtrip",
	"one generated exchange (method x target x request header set x request body x origin status x response header set x response body x transport x backend), delivered once (relayed) and optionally a second time (from the store when storable); oracle: origin log = what the client sent, client response = what the origin scripted, modulo a fixed allow-list (name casing, proxy-added Via/X-Cache/Cache-Status/Age/Accept-Ranges, User-Agent/Accept-Encoding defaults, framing, fabricated validators), hop-by-hop and Connection-nominated fields absent; non-trivial = a multi-valued or Connection-nominated field or a request body is present and the exchange is not a plain GET/200; distinct by full case",
	func(c Case, o *ev.Obs) *ev.Failure {
		f := runCase(c, o)
		if f != nil && c.Method == "GET" && c.ReqBodyLen > 0 && (strings.HasPrefix(f.Sig, "relay.req.body") || strings.HasPrefix(f.Sig, "relay.resp.status") || f.Sig == "relay.no-response") {
			// known finding: an uncacheable GET is fetched a second time and a request body cannot be replayed
			f.Sig = "relay.get-with-body.refetch-loses-body"
		}
		return f
	})

func runCase(c Case, o *ev.Obs) *ev.Failure {
	{
		reqBody := string(origin.Content("req", 7, c.ReqBodyLen))
		respBody := origin.Content("c08", 1, c.RespBodyLen)
		if c.RespGzip {
			var zb bytes.Buffer
			zw := gzip.NewWriter(&zb)
			zw.Write(respBody)
			zw.Close()
			respBody = zb.Bytes()
		}
		fullBody := respBody
		if c.Method == "HEAD" || noBodyStatus(c.Status) {
			respBody = nil
		}
		via416 := c.Via416 && c.Method == "GET" && c.Status != 200 && c.Status != 206 && c.Status != 416 && c.ReqBodyLen == 0
		org := origin.NewRaw(func(r *http.Request, body []byte, e *origin.Entry) origin.RawResponse {
			if via416 && r.Header.Get("Range") != "" {
				return origin.RawResponse{Status: 416, Headers: []origin.HV{{K: "Content-Range", V: fmt.Sprintf("bytes */%d", c.RespBodyLen)}, {K: "X-From-416", V: "1"}}, Body: []byte("range refused")}
			}
			hs := []origin.HV{{K: "Date", V: "Mon, 02 Jan 2006 15:04:05 GMT"}, {K: "Content-Type", V: "text/x-verif"}}
			hs = append(hs, c.RespHeaders...)
			if c.RespGzip {
				hs = append(hs, origin.HV{K: "Content-Encoding", V: "gzip"})
			}
			return origin.RawResponse{Status: c.Status, Headers: hs, Body: fullBody,
				Chunked: c.RespChunked && !noBodyStatus(c.Status), NoBody: r.Method == "HEAD" || noBodyStatus(c.Status), NoCL: noBodyStatus(c.Status)}
		})
		defer org.Close()
		env := px.New(px.Opts{Backend: c.Backend, Retry416: true})
		defer env.Close()
		o.Classf("via-416:%v", via416)

		multi, hopNom, hasBody := false, false, c.ReqBodyLen > 0
		cnt := map[string]int{}
		for _, h := range c.ReqHeaders {
			cnt["q"+canon(h.K)]++
			if canon(h.K) == "Connection" {
				hopNom = true
			}
		}
		for _, h := range c.RespHeaders {
			cnt["s"+canon(h.K)]++
			if canon(h.K) == "Connection" {
				hopNom = true
			}
		}
		for _, n := range cnt {
			if n > 1 {
				multi = true
			}
		}
		o.Class("method:" + c.Method)
		o.Classf("status:%dxx", c.Status/100)
		o.Class("transport:" + c.Transport)
		o.Classf("multi:%v", multi)
		o.Classf("conn-nominated:%v", hopNom)
		o.Classf("req-body:%v", hasBody)
		o.Classf("resp-chunked:%v", c.RespChunked)
		o.NonTrivial = (multi || hopNom || hasBody) && (c.Method != "GET" || c.Status != 200)

		for d := 1; d <= c.Deliveries; d++ {
			if d == 2 && c.RangeFirst && c.Method == "GET" {
				// answered from the stored copy (a 206 slice) or relayed: either way it must leave the stored response alone
				o.Class("range-request-between-deliveries")
				env.Via(c.Transport, px.Req{Method: "GET", Host: org.Addr(), Target: c.Target, Headers: []px.H{{K: "Range", V: "bytes=0-0"}}, ReqID: "ranged"})
			}
			rid := fmt.Sprintf("d%d", d)
			req := px.Req{Method: c.Method, Host: org.Addr(), Target: c.Target, Headers: c.ReqHeaders, Body: reqBody, Chunked: c.ReqChunked && c.ReqBodyLen > 0, ReqID: rid}
			if via416 {
				req.Headers = append(append([]px.H{}, c.ReqHeaders...), px.H{K: "Range", V: "bytes=1-2"})
			}
			before := org.Len()
			resp, err := env.Via(c.Transport, req)
			// the net/http body hand-over artefact (see px.Plain) breaks the upstream read in the middle of the
			// body; when the origin's answer has no declared length the plain handler then ends the chunked
			// relay normally and the cut is invisible to px. A body-carrying exchange that delivered a strict
			// prefix is repeated; a cut that persists is reported
			for try := 0; try < 2 && err == nil && resp.ReadErr == nil && hasBody && c.Method != "HEAD" &&
				len(resp.Body) < len(respBody) && bytes.HasPrefix(respBody, resp.Body) && resp.Status == c.Status; try++ {
				o.Class("repeated-after-upstream-cut")
				resp, err = env.Via(c.Transport, req)
			}
			if p := env.Panics(); p != "" {
				return ev.Failf("relay.handler-panic", "proxy handler panicked: %s", p)
			}
			if err != nil {
				return ev.Failf("relay.no-response", "delivery %d: no response: %v", d, err)
			}
			if resp.ReadErr != nil {
				return ev.Failf("relay.bad-framing", "delivery %d: status %d, body read error %v after %d bytes", d, resp.Status, resp.ReadErr, len(resp.Body))
			}
			seen := org.Since(before)
			o.Classf("delivery%d-origin-requests:%d", d, len(seen))
			// ---- request direction: every origin request made for this client request
			for _, e := range seen {
				if f := checkRequest(c, reqBody, e); f != nil {
					return f
				}
			}
			if via416 {
				if len(seen) < 2 || seen[0].Header.Get("Range") == "" || seen[len(seen)-1].Header.Get("Range") != "" {
					return ev.Failf("relay.via-416.no-retry", "delivery %d: expected the client's ranged request and then a retry without Range at the origin, saw %d requests", d, len(seen))
				}
				if resp.Header.Get("X-From-416") != "" || resp.Header.Get("Content-Range") != "" {
					return ev.Failf("relay.resp.header-invented:from-the-416", "delivery %d: the client's answer (status %d) carries fields of the origin's 416 (Content-Range %q)", d, resp.Status, resp.Header.Get("Content-Range"))
				}
			}
			if d == 1 && len(seen) == 0 {
				return ev.Failf("relay.origin-not-contacted", "first delivery did not reach the origin")
			}
			// ---- response direction
			if f := checkResponse(c, d, resp, respBody); f != nil {
				return f
			}
		}
		return nil
	}
}

func checkRequest(c Case, reqBody string, e origin.Entry) *ev.Failure {
	if e.Method != c.Method {
		return ev.Failf("relay.req.method", "client sent %s, origin saw %s", c.Method, e.Method)
	}
	if ref.CanonTarget(e.Target) != ref.CanonTarget(c.Target) {
		return ev.Failf("relay.req.target:"+targetDiff(c.Target, e.Target), "client sent target %q, origin saw %q", c.Target, e.Target)
	}
	if string(e.Body) != reqBody {
		return ev.Failf("relay.req.body", "client sent %d body bytes, origin saw %d (equal prefix %d)", len(reqBody), len(e.Body), commonPrefix([]byte(reqBody), e.Body))
	}
	sent := http.Header{}
	var connVals []string
	for _, h := range c.ReqHeaders {
		k := canon(h.K)
		sent[k] = append(sent[k], h.V)
		if k == "Connection" {
			connVals = append(connVals, h.V)
		}
	}
	nom := nominated(connVals)
	for k, vals := range sent {
		if isHop(k, nom) {
			if got, ok := e.Header[k]; ok && k != "Connection" {
				return ev.Failf("relay.req.hop-forwarded:"+hopClass(k, nom), "hop-by-hop request field %s: %q reached the origin as %q", k, vals, got)
			}
			continue
		}
		got := e.Header[k]
		if !equalVals(vals, got) {
			return ev.Failf("relay.req.header:"+diffClass(vals, got), "request field %s: client sent %q, origin saw %q", k, vals, got)
		}
	}
	for k, got := range e.Header {
		if _, ok := sent[k]; ok {
			continue
		}
		switch k {
		case "User-Agent", "Accept-Encoding", "X-Verif-Req", "Content-Length", "Transfer-Encoding", "Connection":
			continue
		}
		if k == "Range" && c.Via416 && len(got) == 1 && got[0] == "bytes=1-2" {
			continue // the Range the harness added for the via-416 variant (first origin request)
		}
		if k == "Cache-Control" && len(got) == 1 && got[0] == "no-cache" && sent.Get("Pragma") == "no-cache" {
			continue // net/http's request reader adds this for "Pragma: no-cache" (origin-side parsing artefact)
		}
		return ev.Failf("relay.req.header-invented", "origin saw request field %s: %q that the client never sent", k, got)
	}
	return nil
}

var proxyAdded = map[string]bool{"Via": true, "X-Cache": true, "Cache-Status": true, "Age": true, "Accept-Ranges": true,
	"Content-Length": true, "Transfer-Encoding": true, "Connection": true, "Date": true, "Content-Type": true,
	"Etag": true, "Last-Modified": true}

func checkResponse(c Case, d int, resp *px.Resp, respBody []byte) *ev.Failure {
	tag := "relayed"
	if xc := resp.Header.Get("X-Cache"); xc == "HIT" || xc == "REVALIDATED" {
		tag = "stored"
	}
	if resp.Status != c.Status {
		return ev.Failf(fmt.Sprintf("relay.resp.status:%dxx", c.Status/100), "delivery %d (%s): origin answered %d, client got %d", d, tag, c.Status, resp.Status)
	}
	if !bytes.Equal(resp.Body, respBody) {
		return ev.Failf("relay.resp.body:"+tag, "delivery %d (%s): origin body %d bytes, client got %d bytes (equal prefix %d)", d, tag, len(respBody), len(resp.Body), commonPrefix(respBody, resp.Body))
	}
	sent := http.Header{}
	var connVals []string
	sent["Content-Type"] = []string{"text/x-verif"}
	sent["Date"] = []string{"Mon, 02 Jan 2006 15:04:05 GMT"}
	for _, h := range c.RespHeaders {
		k := canon(h.K)
		sent[k] = append(sent[k], h.V)
		if k == "Connection" {
			connVals = append(connVals, h.V)
		}
	}
	if c.RespGzip {
		sent["Content-Encoding"] = append(sent["Content-Encoding"], "gzip")
	}
	nom := nominated(connVals)
	keys := make([]string, 0, len(sent))
	for k := range sent {
		keys = append(keys, k)
	}
	sort.Strings(keys)
	for _, k := range keys {
		vals := sent[k]
		if isHop(k, nom) {
			if got, ok := resp.Header[k]; ok && k != "Connection" {
				return ev.Failf("relay.resp.hop-forwarded:"+hopClass(k, nom), "delivery %d (%s): hop-by-hop response field %s: %q reached the client as %q", d, tag, k, vals, got)
			}
			continue
		}
		got := resp.Header[k]
		if k == "Via" || k == "Cache-Status" || k == "X-Cache" {
			// the proxy appends an entry of its own: the origin's values come first, unchanged
			if len(got) < len(vals) || !equalVals(vals, got[:len(vals)]) {
				return ev.Failf("relay.resp.header:upstream-chain-lost:"+tag, "delivery %d (%s): response field %s: origin sent %q, client got %q - the origin's values must come first, unchanged", d, tag, k, vals, got)
			}
			continue
		}
		if !equalVals(vals, got) {
			return ev.Failf("relay.resp.header:"+diffClass(vals, got)+":"+tag, "delivery %d (%s): response field %s: origin sent %q, client got %q", d, tag, k, vals, got)
		}
	}
	if !c.RespChunked && !noBodyStatus(c.Status) {
		if cl := resp.Header.Get("Content-Length"); cl != "" && !c.RespGzip && cl != strconv.Itoa(c.RespBodyLen) {
			return ev.Failf("relay.resp.content-length", "delivery %d (%s): origin Content-Length %d, client got %q", d, tag, c.RespBodyLen, cl)
		}
	}
	for k, got := range resp.Header {
		if _, ok := sent[k]; ok || proxyAdded[k] {
			continue
		}
		return ev.Failf("relay.resp.header-invented", "delivery %d (%s): client got response field %s: %q that the origin never sent", d, tag, k, got)
	}
	return nil
}

func equalVals(a, b []string) bool {
	if len(a) != len(b) {
		return false
	}
	for i := range a {
		if a[i] != b[i] {
			return false
		}
	}
	return true
}

func diffClass(want, got []string) string {
	switch {
	case len(got) == 0:
		return "dropped"
	case len(got) < len(want):
		return "values-lost"
	case len(got) > len(want):
		return "values-added"
	default:
		return "value-changed"
	}
}

func hopClass(k string, nom map[string]bool) string {
	if nom[k] {
		return "connection-nominated"
	}
	return k
}

func targetDiff(sent, seen string) string {
	switch {
	case strings.Contains(strings.ToUpper(sent), "%2F") && !strings.Contains(strings.ToUpper(seen), "%2F"):
		return "encoded-slash-decoded"
	case strings.SplitN(sent, "?", 2)[0] != strings.SplitN(seen, "?", 2)[0]:
		return "path"
	default:
		return "query"
	}
}

func commonPrefix(a, b []byte) int {
	n := 0
	for n < len(a) && n < len(b) && a[n] == b[n] {
		n++
	}
	return n
}

func TestReplay(t *testing.T) { ev.ReplayWitnesses(t) }

var segs = []string{"a", "b", "A", "x.y", "%41", "%7Cp", "p|q", "a%2Fb", "%2f", "c;d", "e:f", "g@h", "%20", "%C3%A9", "..", ".", "k+l", "m,n", "~t", "%25", "s=1"}
var queries = []string{"", "", "?", "?x", "?x=1", "?a=1&b=2", "?a|b", "?q=%2F", "?q=a%20b", "?a=%31", "?x=/y", "?u=http://e/", "?e=%26"}

func drawTarget(t *rapid.T) string {
	n := rapid.IntRange(0, 4).Draw(t, "nseg")
	var b strings.Builder
	for i := 0; i < n; i++ {
		b.WriteByte('/')
		b.WriteString(rapid.SampledFrom(segs).Draw(t, "seg"))
	}
	if n == 0 || rapid.IntRange(0, 3).Draw(t, "slash") == 0 {
		b.WriteByte('/')
	}
	p := b.String()
	// A raw "|" is not a valid URI path octet; net/url re-encodes such a path wholesale, which is outside
	// the input domain of this check when it coincides with encoded reserved characters.
	if up := strings.ToUpper(p); strings.Contains(p, "|") && (strings.Contains(up, "%2F") || strings.Contains(up, "%25")) {
		p = strings.ReplaceAll(p, "|", "%7C")
	}
	return p + rapid.SampledFrom(queries).Draw(t, "query")
}

type hdrSpec struct {
	k    string
	vals []string
}

var reqPool = []hdrSpec{
	{"Accept", []string{"text/html", "application/json;q=0.9", "*/*;q=0.1"}},
	{"accept-language", []string{"en", "de;q=0.5"}},
	{"Cookie", []string{"a=1", "b=2; c=3", "d=4"}},
	{"X-A", []string{"1", "2", "3"}},
	{"x-cUsToM-cAsE", []string{"v"}},
	{"Authorization", []string{"Bearer tok"}},
	{"Referer", []string{"http://example.test/x?y=z"}},
	{"X-Empty", []string{""}},
	{"X-Comma", []string{"a, b", "c"}},
	{"Pragma", []string{"no-cache"}},
	{"Cache-Control", []string{"no-cache", "max-age=0"}},
}

var reqHop = [][]px.H{
	{{K: "Connection", V: "close, X-Hop"}, {K: "X-Hop", V: "1"}},
	{{K: "Connection", V: "x-hop-lower"}, {K: "X-Hop-Lower", V: "1"}, {K: "X-Hop-Lower", V: "2"}},
	{{K: "Keep-Alive", V: "timeout=5"}},
	{{K: "TE", V: "trailers"}},
	{{K: "Proxy-Authorization", V: "Basic Zm9vOmJhcg=="}},
	{{K: "Proxy-Connection", V: "keep-alive"}},
	{{K: "Connection", V: "X-One"}, {K: "Connection", V: "X-Two"}, {K: "X-One", V: "1"}, {K: "X-Two", V: "2"}},
}

var writeGuards = [][]px.H{
	{{K: "If-Match", V: `"rev-41"`}},
	{{K: "If-Match", V: `"a", "b"`}},
	{{K: "If-Unmodified-Since", V: "Mon, 02 Jan 2006 15:04:05 GMT"}},
	{{K: "If-None-Match", V: "*"}},
	{{K: "If-Match", V: `"rev-41"`}, {K: "If-Unmodified-Since", V: "Mon, 02 Jan 2006 15:04:05 GMT"}},
}

var reqRangeGroups = [][]px.H{
	{{K: "Range", V: "bytes=0-3,10-13"}, {K: "If-Range", V: `"etag-the-client-has"`}},
	{{K: "Range", V: "BYTES=0-3"}, {K: "If-Range", V: "Mon, 02 Jan 2006 15:04:05 GMT"}},
	{{K: "Range", V: "items=0-3"}, {K: "If-Range", V: `"v7"`}},
	{{K: "If-Range", V: `"guard-without-range"`}},
	{{K: "Range", V: "bytes=0-3,10-13"}},
}

var respPool = []hdrSpec{
	{"Set-Cookie", []string{"a=1; Path=/", "b=2; HttpOnly", "c=3", "d=4; Max-Age=5"}},
	{"Link", []string{"</a>; rel=preload", "</b>; rel=next"}},
	{"Vary", []string{"Accept", "Accept-Language, Cookie"}},
	{"WWW-Authenticate", []string{"Basic realm=x", "Bearer realm=y"}},
	{"X-Only", []string{"one"}},
	{"Content-Language", []string{"en"}},
	{"X-Multi", []string{"1", "2", "3"}},
	{"x-lower-case", []string{"v"}},
	{"Content-Disposition", []string{"attachment; filename=\"a b.txt\""}},
	{"X-Empty", []string{""}},
	// an origin behind a CDN or another proxy: the fields this proxy appends to are the origin's as well
	{"Via", []string{"1.0 fred", "1.1 edge-cdn.example (squid)"}},
	{"Cache-Status", []string{"edge-cdn; hit; ttl=30"}},
	{"X-Cache", []string{"HIT from edge"}},
}

var respHop = [][]origin.HV{
	{{K: "Connection", V: "X-Resp-Hop"}, {K: "X-Resp-Hop", V: "1"}},
	{{K: "Keep-Alive", V: "timeout=5"}},
	{{K: "Proxy-Authenticate", V: "Basic realm=p"}},
	{{K: "Connection", V: "x-r1, X-R2"}, {K: "X-R1", V: "1"}, {K: "X-R2", V: "2"}, {K: "X-R2", V: "3"}},
}

func drawCase(t *rapid.T) Case {
	c := Case{
		Backend:     rapid.SampledFrom([]string{"memory", "file"}).Draw(t, "backend"),
		Transport:   rapid.SampledFrom([]string{"plain", "plain", "tunnel"}).Draw(t, "transport"),
		Method:      rapid.SampledFrom([]string{"GET", "GET", "GET", "HEAD", "POST", "PUT", "PATCH", "DELETE", "OPTIONS"}).Draw(t, "method"),
		Target:      drawTarget(t),
		Status:      rapid.SampledFrom([]int{200, 200, 200, 201, 203, 204, 205, 301, 302, 303, 307, 308, 400, 401, 403, 404, 407, 410, 418, 451, 500, 503}).Draw(t, "status"),
		RespBodyLen: rapid.SampledFrom([]int{0, 1, 17, 1000, 5000, 70000, 1 << 20}).Draw(t, "resp_len"),
		RespChunked: rapid.IntRange(0, 2).Draw(t, "resp_chunked") == 0,
		Deliveries:  rapid.SampledFrom([]int{1, 2, 2}).Draw(t, "deliveries"),
		Via416:      rapid.IntRange(0, 3).Draw(t, "via416") == 0,
	}
	c.RespGzip = rapid.IntRange(0, 7).Draw(t, "resp_gzip") == 0
	if c.RespBodyLen == 1<<20 && rapid.IntRange(0, 3).Draw(t, "big") != 0 {
		c.RespBodyLen = 300
	}
	// request headers
	for _, idx := range rapid.SliceOfNDistinct(rapid.IntRange(0, len(reqPool)-1), 0, 5, rapid.ID[int]).Draw(t, "req_fields") {
		hs := reqPool[idx]
		n := rapid.IntRange(1, len(hs.vals)).Draw(t, "nvals")
		for i := 0; i < n; i++ {
			c.ReqHeaders = append(c.ReqHeaders, px.H{K: hs.k, V: hs.vals[i]})
		}
	}
	if rapid.IntRange(0, 1).Draw(t, "req_hop") == 0 {
		c.ReqHeaders = append(c.ReqHeaders, rapid.SampledFrom(reqHop).Draw(t, "req_hop_set")...)
	}
	if c.Method == "POST" || c.Method == "PUT" || c.Method == "PATCH" || (c.Method == "DELETE" && rapid.Bool().Draw(t, "del_body")) {
		c.ReqBodyLen = rapid.SampledFrom([]int{0, 1, 1000, 70000, 1 << 20}).Draw(t, "req_len")
		if c.ReqBodyLen == 1<<20 && rapid.IntRange(0, 3).Draw(t, "bigreq") != 0 {
			c.ReqBodyLen = 2000
		}
		c.ReqChunked = rapid.Bool().Draw(t, "req_chunked")
	}
	// response headers
	for _, idx := range rapid.SliceOfNDistinct(rapid.IntRange(0, len(respPool)-1), 0, 5, rapid.ID[int]).Draw(t, "resp_fields") {
		hs := respPool[idx]
		n := rapid.IntRange(1, len(hs.vals)).Draw(t, "rnvals")
		for i := 0; i < n; i++ {
			c.RespHeaders = append(c.RespHeaders, origin.HV{K: hs.k, V: hs.vals[i]})
		}
	}
	if rapid.IntRange(0, 1).Draw(t, "resp_hop") == 0 {
		c.RespHeaders = append(c.RespHeaders, rapid.SampledFrom(respHop).Draw(t, "resp_hop_set")...)
	}
	if c.Status >= 300 && c.Status < 400 {
		c.RespHeaders = append(c.RespHeaders, origin.HV{K: "Location", V: rapid.SampledFrom([]string{"/elsewhere", "/other?x=1", "http://127.0.0.1:1/unreachable"}).Draw(t, "location")})
	}
	switch rapid.IntRange(0, 3).Draw(t, "cc") {
	case 0:
		c.RespHeaders = append(c.RespHeaders, origin.HV{K: "Cache-Control", V: "max-age=60"})
	case 1:
		c.RespHeaders = append(c.RespHeaders, origin.HV{K: "Cache-Control", V: "no-store"})
	case 2:
		c.RespHeaders = append(c.RespHeaders, origin.HV{K: "Cache-Control", V: "public"}, origin.HV{K: "Cache-Control", V: "max-age=120"})
	}
	if rapid.IntRange(0, 3).Draw(t, "storable") == 0 {
		// make sure the from-the-store delivery is well represented
		c.Method, c.Status, c.Deliveries = "GET", 200, 2
		c.RangeFirst = rapid.Bool().Draw(t, "range_first")
		if rapid.IntRange(0, 9).Draw(t, "get_body") != 0 {
			c.ReqBodyLen, c.ReqChunked = 0, false
		}
		c.RespHeaders = append(c.RespHeaders, origin.HV{K: "Cache-Control", V: "max-age=600"})
		var hs []origin.HV
		for _, h := range c.RespHeaders {
			if !(canon(h.K) == "Cache-Control" && h.V == "no-store") {
				hs = append(hs, h)
			}
		}
		c.RespHeaders = hs
	}
	// a write guarded against lost updates (If-Match / If-Unmodified-Since) or against overwriting (If-None-Match: *):
	// for a method the proxy never answers from its store these are the client's end-to-end fields like any
	// other - without them the origin applies the write unconditionally. (On GET and HEAD the proxy answers for
	// the origin and replaces the client's conditionals by its own validators: C06's subject, not drawn here.)
	if (c.Method == "PUT" || c.Method == "PATCH" || c.Method == "DELETE" || c.Method == "POST") && rapid.IntRange(0, 3).Draw(t, "write_guard") == 0 {
		c.ReqHeaders = append(c.ReqHeaders, rapid.SampledFrom(writeGuards).Draw(t, "write_guard_set")...)
	}
	// range requests the proxy does not answer itself (several ranges, another unit, an upper-case unit) and
	// their If-Range guard are end-to-end fields like any other: both reach the origin, or an origin whose
	// content changed answers a 206 it was told not to send
	if !c.Via416 && !c.RangeFirst && rapid.IntRange(0, 5).Draw(t, "req_range_group") == 0 {
		c.ReqHeaders = append(c.ReqHeaders, rapid.SampledFrom(reqRangeGroups).Draw(t, "req_range_set")...)
	}
	return c
}

func TestRelayRoundTrip(t *testing.T) {
	sub.CheckSalt(t, 1, ev.N(1500, 120000), drawCase)
}
