package c12

import "time"

func init() {
	subSeq.WithTimeout(30 * time.Second)
	subBurst.WithTimeout(30 * time.Second)
}
