package c12

import (
	"fmt"
	"os"
	"path/filepath"
	"strings"
	"sync"
	"testing"
	"time"

	"pgregory.net/rapid"

	"verifharness/internal/cachekit"
	"verifharness/internal/ev"
)

func TestMain(m *testing.M)   { ev.Main(m, "C12") }
func TestReplay(t *testing.T) { ev.ReplayWitnesses(t) }

const universe = 4

// Op is one cache operation.
type Op struct {
	Kind    string `json:"kind"` // store | delete | get | update | cycle | limit | restart
	Key     int    `json:"key,omitempty"`
	Size    int    `json:"size,omitempty"`
	Expired bool   `json:"expired,omitempty"` // store: already expired; update: expire it
	Fault   string `json:"fault,omitempty"`   // store: "" | "fail" | "empty"
	FailAt  int    `json:"fail_at,omitempty"`
	Limit   int64  `json:"limit,omitempty"`
	Junk    bool   `json:"junk,omitempty"` // restart: scatter junk in the directory first
}

type Seq struct {
	Backend string `json:"backend"`
	Shards  int    `json:"shards"`
	Ops     []Op   `json:"ops"`
}

func (s Seq) String() string {
	var b strings.Builder
	for _, o := range s.Ops {
		fmt.Fprintf(&b, "%s", o.Kind)
		switch o.Kind {
		case "store":
			fmt.Fprintf(&b, "(k%d,%d", o.Key, o.Size)
			if o.Expired {
				b.WriteString(",expired")
			}
			if o.Fault != "" {
				fmt.Fprintf(&b, ",%s@%d", o.Fault, o.FailAt)
			}
			b.WriteString(")")
		case "delete", "get", "update":
			fmt.Fprintf(&b, "(k%d)", o.Key)
		case "limit":
			fmt.Fprintf(&b, "(%d)", o.Limit)
		}
		b.WriteString(" ")
	}
	return b.String()
}

// invariant: reported == actually retrievable (== directory for the file backend), nothing negative
func invariant(k *cachekit.Kit, step string) *ev.Failure { return invariantN(k, step, universe) }

func invariantN(k *cachekit.Kit, step string, universe int) *ev.Failure {
	a := k.Measure(universe)
	rb, re := cachekit.Reported()
	if len(a.Broken) > 0 {
		return ev.Failf("size.unreadable-entry", "after %s: %s", step, strings.Join(a.Broken, "; "))
	}
	if rb < 0 || re < 0 {
		return ev.Failf("size.negative", "after %s: reported bytes %d, entries %d", step, rb, re)
	}
	if a.DataBytes != a.MetaBytes {
		return ev.Failf("size.metadata-size-wrong", "after %s: readable bytes %d but sum of Metadata.Size %d", step, a.DataBytes, a.MetaBytes)
	}
	if rb != a.DataBytes || re != int64(a.Entries) {
		return ev.Failf("size.drift", "after %s: reported %d bytes / %d entries, actually retrievable %d bytes / %d entries (per key %v)", step, rb, re, a.DataBytes, a.Entries, a.PerKey)
	}
	if k.Opts.Backend == "file" {
		files, size, others := k.DirUsage()
		if len(others) > 0 || files != a.Entries || size != a.DataBytes {
			return ev.Failf("size.directory-differs", "after %s: directory holds %d files / %d bytes (other entries %v), cache returns %d entries / %d bytes", step, files, size, others, a.Entries, a.DataBytes)
		}
	}
	return nil
}

func runSeq(s Seq, o *ev.Obs) *ev.Failure {
	k := cachekit.New(cachekit.Opts{Backend: s.Backend, Shards: s.Shards})
	defer k.Close()
	model := map[int]int{} // key -> size of the version that must be retrievable
	vers := map[int]int{}
	ver := 0
	far := time.Now().Add(time.Hour)
	past := time.Now().Add(-time.Hour)
	expired := map[int]bool{}
	modelValid := true
	limitTouched := false
	for i, op := range s.Ops {
		step := fmt.Sprintf("step %d %s", i, Seq{Ops: []Op{op}}.String())
		switch op.Kind {
		case "store":
			ver++
			exp := far
			if op.Expired {
				exp = past
			}
			failAt := -1
			size := op.Size
			if op.Fault == "fail" {
				failAt = op.FailAt % (size + 1)
			} else if op.Fault == "empty" {
				size = 0
			}
			_, overwrote := model[op.Key]
			e, err := k.Store(op.Key, ver, size, exp, failAt)
			if e != nil && e.Data != nil {
				e.Data.Close()
			}
			switch {
			case op.Fault == "fail":
				o.Class("failed-write")
				if overwrote {
					o.Class("failed-write-onto-live-key")
				}
				if err == nil {
					return ev.Failf("size.failed-source-accepted", "%s: source failed after %d bytes but the store reported success", step, failAt)
				}
				// the key must afterwards be absent or hold a complete earlier version: checked by the invariant
				modelValid = false
			case err != nil:
				if size == 0 && s.Backend == "file" {
					o.Class("empty-write-refused")
					modelValid = false
				} else {
					// a full cache may refuse a store (eviction is C13's subject); accounting must still hold
					o.Class("store-refused")
					modelValid = false
				}
			default:
				if overwrote {
					o.Class("overwrite-live-key")
				}
				if size == 0 {
					o.Class("empty-write")
				}
				model[op.Key], vers[op.Key] = size, ver
				expired[op.Key] = op.Expired
			}
		case "delete":
			k.C.Delete(cachekit.Key(op.Key))
			delete(model, op.Key)
		case "get":
			if e, err := k.C.Get(cachekit.Key(op.Key)); err == nil {
				e.Data.Close()
			}
		case "update":
			err := k.C.UpdateMetadata(cachekit.Key(op.Key), func(m *cacheMeta) {
				if op.Expired {
					m.Expires = past
				} else {
					m.Expires = far
				}
			})
			if err == nil {
				expired[op.Key] = op.Expired
			}
		case "cycle":
			k.C.VerifRunCleanupCycle()
			for key := range model {
				if expired[key] {
					delete(model, key)
					o.Class("expired-swept")
				}
			}
		case "limit":
			k.SetLimit(op.Limit)
			k.C.VerifRunCleanupCycle()
			o.Class("limit-change")
			limitTouched = true
			modelValid = false // which entries an eviction removes is C13's subject
			for key := range model {
				if expired[key] {
					delete(model, key)
				}
			}
		case "restart":
			if s.Backend != "file" {
				continue
			}
			o.Class("restart")
			if op.Junk {
				o.Class("restart-dirty")
				os.WriteFile(filepath.Join(k.Dir, "junk.tmp"), []byte("partial write"), 0o644)
				os.MkdirAll(filepath.Join(k.Dir, "subdir", "deeper"), 0o755)
				os.WriteFile(filepath.Join(k.Dir, "subdir", "x"), []byte("xx"), 0o644)
				os.WriteFile(filepath.Join(k.Dir, cachekit.Key(0).Hex+".part"), []byte("half"), 0o644)
			}
			k.Restart()
			model = map[int]int{}
			expired = map[int]bool{}
			modelValid = !limitTouched
		}
		if f := invariant(k, step); f != nil {
			f.What = s.String() + " :: " + f.What
			return f
		}
		if modelValid {
			a := k.Measure(universe)
			for key, sz := range model {
				if got, ok := a.PerKey[key]; !ok || got != int64(sz) || a.Vers[key] != vers[key] {
					return ev.Failf("size.model-mismatch", "%s :: after %s: k%d should hold version %d (%d bytes); cache returns present=%v %d bytes version %d", s.String(), step, key, vers[key], sz, ok, got, a.Vers[key])
				}
			}
			if len(a.PerKey) != len(model) {
				return ev.Failf("size.model-mismatch", "%s :: after %s: cache returns keys %v, model has %v", s.String(), step, a.PerKey, model)
			}
		}
	}
	return nil
}

var subSeq = ev.Register("size-accounting",
	"operation sequences over a 4-key universe (store fresh/expired/failing-after-n/empty with sizes 1,100,5000; overwrite; delete; get; update-metadata; synchronous cleanup cycle; limit change + cycle; file backend: abandon + reopen over a dirty directory) on the real cache backends; after every step: reported bytes/entries (metrics) == bytes/entries actually retrievable by Get over the universe == sum of Metadata.Size (== regular files/bytes in the directory for the file backend), never negative, every retrievable body intact; plus equality with a map model while no eviction has happened; non-trivial = sequence has an overwrite of a live key, a failed or empty write, or a restart; distinct by sequence",
	func(s Seq, o *ev.Obs) *ev.Failure {
		o.Class("backend:" + s.Backend)
		f := runSeq(s, o)
		for _, c := range o.Classes {
			if c == "overwrite-live-key" || c == "failed-write" || c == "empty-write" || c == "empty-write-refused" || c == "restart" {
				o.NonTrivial = true
			}
		}
		o.Canon = s.Backend + "|" + fmt.Sprint(s.Shards) + "|" + s.String()
		return f
	})

type cacheMeta = cacheEntryMeta

func drawOp(t *rapid.T, backend string) Op {
	switch rapid.IntRange(0, 13).Draw(t, "op") {
	case 0, 1, 2, 3, 4:
		op := Op{Kind: "store", Key: rapid.IntRange(0, universe-1).Draw(t, "key"), Size: rapid.SampledFrom([]int{1, 100, 100, 5000}).Draw(t, "size")}
		switch rapid.IntRange(0, 7).Draw(t, "fault") {
		case 0:
			op.Fault, op.FailAt = "fail", rapid.IntRange(0, 5000).Draw(t, "fail_at")
		case 1:
			op.Fault = "empty"
		case 2:
			op.Expired = true
		}
		return op
	case 5, 6:
		return Op{Kind: "delete", Key: rapid.IntRange(0, universe-1).Draw(t, "key")}
	case 7:
		return Op{Kind: "get", Key: rapid.IntRange(0, universe-1).Draw(t, "key")}
	case 8:
		return Op{Kind: "update", Key: rapid.IntRange(0, universe-1).Draw(t, "key"), Expired: rapid.Bool().Draw(t, "expire")}
	case 9, 10:
		return Op{Kind: "cycle"}
	case 11:
		return Op{Kind: "limit", Limit: rapid.SampledFrom([]int64{1, 150, 5200, 1 << 30}).Draw(t, "limit")}
	default:
		if backend == "file" {
			return Op{Kind: "restart", Junk: rapid.Bool().Draw(t, "junk")}
		}
		return Op{Kind: "cycle"}
	}
}

func drawSeq(t *rapid.T) Seq {
	s := Seq{Backend: rapid.SampledFrom([]string{"memory", "file"}).Draw(t, "backend"), Shards: rapid.SampledFrom([]int{1, 2, 16}).Draw(t, "shards")}
	n := rapid.IntRange(1, 14).Draw(t, "n")
	for i := 0; i < n; i++ {
		s.Ops = append(s.Ops, drawOp(t, s.Backend))
	}
	return s
}

func TestSizeAccountingRandom(t *testing.T) {
	subSeq.CheckSalt(t, 1, ev.N(2500, 240000), drawSeq)
}

// the 12-letter alphabet of the bounded-exhaustive enumeration
var alphabet = []Op{
	{Kind: "store", Key: 0, Size: 100},
	{Kind: "store", Key: 0, Size: 5000},
	{Kind: "store", Key: 1, Size: 100},
	{Kind: "store", Key: 0, Size: 100, Expired: true},
	{Kind: "store", Key: 0, Size: 100, Fault: "fail", FailAt: 50},
	{Kind: "store", Key: 0, Size: 100, Fault: "empty"},
	{Kind: "delete", Key: 0},
	{Kind: "delete", Key: 1},
	{Kind: "get", Key: 0},
	{Kind: "update", Key: 0, Expired: true},
	{Kind: "cycle"},
	{Kind: "limit", Limit: 150},
}

func TestSizeAccountingExhaustive(t *testing.T) {
	depth := 4
	backends := []string{"memory"}
	if ev.Thorough() {
		depth, backends = 5, []string{"memory", "file"}
	}
	for _, be := range backends {
		be := be
		d := depth
		if be == "file" && !ev.Thorough() {
			d = 3
		}
		idx := 0
		subSeq.Enumerate(t, true, func(yield func(Seq) bool) {
			var rec func(prefix []Op) bool
			rec = func(prefix []Op) bool {
				if len(prefix) > 0 {
					idx++
					if idx%ev.NShards == ev.Shard {
						if !yield(Seq{Backend: be, Shards: 16, Ops: append([]Op(nil), prefix...)}) {
							return false
						}
					}
				}
				if len(prefix) == d {
					return true
				}
				for _, a := range alphabet {
					if !rec(append(prefix, a)) {
						return false
					}
				}
				return true
			}
			rec(nil)
		})
		ev.Note("size-accounting exhaustive: every sequence of length <= %d over a 12-letter operation alphabet, %s backend", d, be)
	}
}

// ---------------------------------------------------------------- concurrent bursts ending in quiescence

type Burst struct {
	Backend string `json:"backend"`
	Shards  int    `json:"shards"`
	Plans   [][]Op `json:"plans"`
}

var subBurst = ev.Register("size-accounting-bursts",
	"2-8 goroutines run pre-drawn plans of store/overwrite/delete/get/update/cycle on a 4-key universe concurrently against one cache; after all have joined (quiescence) and one more cycle, the reported size and entry count must equal what Get returns (and the directory); non-trivial = two goroutines touched the same key with at least one store; distinct by plan set",
	func(b Burst, o *ev.Obs) *ev.Failure {
		k := cachekit.New(cachekit.Opts{Backend: b.Backend, Shards: b.Shards})
		defer k.Close()
		far := time.Now().Add(time.Hour)
		var wg sync.WaitGroup
		var verMu sync.Mutex
		ver := 0
		touched := map[int]int{}
		for _, plan := range b.Plans {
			seen := map[int]bool{}
			for _, op := range plan {
				if op.Kind == "store" && !seen[op.Key] {
					seen[op.Key] = true
					touched[op.Key]++
				}
			}
		}
		for _, n := range touched {
			if n >= 2 {
				o.NonTrivial = true
			}
		}
		for _, plan := range b.Plans {
			wg.Add(1)
			go func(plan []Op) {
				defer wg.Done()
				for _, op := range plan {
					switch op.Kind {
					case "store":
						verMu.Lock()
						ver++
						v := ver
						verMu.Unlock()
						failAt := -1
						if op.Fault == "fail" {
							failAt = op.FailAt % (op.Size + 1)
						}
						if e, err := k.Store(op.Key, v, op.Size, far, failAt); err == nil && e.Data != nil {
							e.Data.Close()
						}
					case "delete":
						k.C.Delete(cachekit.Key(op.Key))
					case "get":
						if e, err := k.C.Get(cachekit.Key(op.Key)); err == nil {
							e.Data.Close()
						}
					case "update":
						k.C.UpdateMetadata(cachekit.Key(op.Key), func(m *cacheMeta) { m.Expires = far })
					case "cycle":
						k.C.VerifRunCleanupCycle()
					}
				}
			}(plan)
		}
		wg.Wait()
		k.C.VerifRunCleanupCycle()
		o.Class("backend:" + b.Backend)
		o.Classf("goroutines:%d", len(b.Plans))
		return invariant(k, "quiescence after the burst")
	})

func drawBurst(t *rapid.T) Burst {
	b := Burst{Backend: rapid.SampledFrom([]string{"memory", "file"}).Draw(t, "backend"), Shards: rapid.SampledFrom([]int{1, 2, 16}).Draw(t, "shards")}
	ng := rapid.IntRange(2, 8).Draw(t, "goroutines")
	for g := 0; g < ng; g++ {
		var plan []Op
		n := rapid.IntRange(1, 10).Draw(t, "n")
		for i := 0; i < n; i++ {
			op := drawOp(t, "memory")
			if op.Kind == "limit" || op.Fault == "empty" {
				op = Op{Kind: "get", Key: 0}
			}
			op.Expired = false
			plan = append(plan, op)
		}
		b.Plans = append(b.Plans, plan)
	}
	return b
}

func TestSizeAccountingBursts(t *testing.T) {
	subBurst.CheckSalt(t, 2, ev.N(300, 20000), drawBurst)
}
