package c12

import (
	"reservoir/cache"

	"verifharness/internal/cachekit"
)

type cacheEntryMeta = cache.EntryMetadata[cachekit.Meta]
