package c12

// Counter drift that only parallel operations on different keys can produce: the size and entry
// counters are shared by all keys, the per-key locks are not. Workers churn through keys of their own
// (so no two operations ever meet on a key or a shard lock for long), which puts thousands of counter
// updates next to each other; at quiescence the counters must equal what the cache returns.

import (
	"fmt"
	"sync"
	"sync/atomic"
	"testing"
	"time"

	"pgregory.net/rapid"

	"reservoir/utils/verifhook"

	"verifharness/internal/cachekit"
	"verifharness/internal/ev"
)

type Churn struct {
	Backend string `json:"backend"`
	Shards  int    `json:"shards"`
	Workers int    `json:"workers"`
	KeysPer int    `json:"keys_per_worker"`
	Rounds  int    `json:"rounds"`
	Sizes   []int  `json:"sizes"`   // body sizes, used in turn
	Pattern []int  `json:"pattern"` // per step: 0 store, 1 delete, 2 overwrite (store on a live key), used in turn
	Cycles  int    `json:"cycles"`  // cleanup cycles run by one more goroutine while the workers churn
}

var subChurn = ev.Register("size-accounting-churn",
	"8-16 workers each run 300-4000 rounds of store / overwrite / delete (pattern and body sizes 1-200 drawn per case) on 1-3 keys that belong to that worker alone, while another goroutine runs cleanup cycles (none, a few, or back to back until the workers are half way); nothing expires and nothing is evicted; after all have joined: reported bytes/entries == what Get returns over every key (== directory for the file backend), never negative; non-trivial = at least 8 workers and 1000 operations in total; distinct by case",
	func(c Churn, o *ev.Obs) *ev.Failure {
		k := cachekit.New(cachekit.Opts{Backend: c.Backend, Shards: c.Shards})
		defer k.Close()
		far := time.Now().Add(time.Hour)
		var wg sync.WaitGroup
		start := make(chan struct{})
		var half atomic.Bool
		for w := 0; w < c.Workers; w++ {
			wg.Add(1)
			go func(w int) {
				defer wg.Done()
				<-start
				ver := 0
				for r := 0; r < c.Rounds; r++ {
					if w == 0 && r == c.Rounds*9/10 {
						half.Store(true)
					}
					key := w*c.KeysPer + r%c.KeysPer
					switch c.Pattern[(r+w)%len(c.Pattern)] {
					case 1:
						k.C.Delete(cachekit.Key(key))
					default:
						ver++
						if e, err := k.Store(key, ver, c.Sizes[(r+w)%len(c.Sizes)], far, -1); err == nil && e.Data != nil {
							e.Data.Close()
						}
					}
				}
			}(w)
		}
		wg.Add(1)
		go func() {
			defer wg.Done()
			<-start
			// the sweeper stops while the workers are still at it: the sweep that happens to come after
			// quiescence would republish the size and hide what an earlier one lost
			for i := 0; i < c.Cycles && !half.Load(); i++ {
				k.C.VerifRunCleanupCycle()
			}
		}()
		close(start)
		wg.Wait()
		o.Class("backend:" + c.Backend)
		o.Classf("workers>=12:%v", c.Workers >= 12)
		o.Classf("cycles:%v", c.Cycles > 0)
		o.NonTrivial = c.Workers >= 8 && c.Workers*c.Rounds >= 1000
		n := c.Workers * c.KeysPer
		if f := invariantN(k, fmt.Sprintf("%d workers x %d rounds on keys of their own", c.Workers, c.Rounds), n); f != nil {
			return f
		}
		k.C.VerifRunCleanupCycle()
		return invariantN(k, "one more cleanup cycle after the churn", n)
	})

func drawChurn(t *rapid.T) Churn {
	c := Churn{
		Backend: rapid.SampledFrom([]string{"memory", "memory", "file"}).Draw(t, "backend"),
		Shards:  rapid.SampledFrom([]int{1, 16, 256}).Draw(t, "shards"),
		Workers: rapid.IntRange(8, 16).Draw(t, "workers"),
		KeysPer: rapid.IntRange(1, 3).Draw(t, "keys"),
		Sizes:   rapid.SliceOfN(rapid.IntRange(1, 200), 1, 5).Draw(t, "sizes"),
		Pattern: rapid.SliceOfN(rapid.SampledFrom([]int{0, 0, 1, 1, 2}), 2, 7).Draw(t, "pattern"),
		Cycles:  rapid.SampledFrom([]int{0, 5, 100, 100000}).Draw(t, "cycles"),
	}
	if c.Backend == "file" {
		c.Rounds = rapid.IntRange(300, 800).Draw(t, "rounds")
	} else {
		c.Rounds = rapid.IntRange(1000, 4000).Draw(t, "rounds")
	}
	return c
}

func TestSizeAccountingChurn(t *testing.T) {
	subChurn.CheckSalt(t, 3, ev.N(12, 600), drawChurn)
}

// ---------------------------------------------------------------- an operation inside the janitor's publish window

// The janitor reads the cache's size and then publishes it; an operation of another goroutine that falls
// between the two is a schedule no stress run reaches on demand (the window is two instructions wide), so
// the harness owns it: the yield point janitor.beforePublish runs the drawn operations on a goroutine of
// their own while the janitor waits there.
type Window struct {
	Backend string `json:"backend"`
	Shards  int    `json:"shards"`
	MaxSize int64  `json:"max_size,omitempty"` // 0 = no limit; else small enough for the cycle to evict
	Pre     []Op   `json:"pre"`
	During  []Op   `json:"during"` // run inside the window of the cycle's first publication
}

var subWindow = ev.Register("size-accounting-publish-window",
	"a 4-key cache is filled by a drawn prefix (fresh and expired stores, deletes), then one cleanup cycle runs (expiry sweep, and eviction when the drawn limit is exceeded) and, while the janitor stands between reading the cache size and publishing it (yield point janitor.beforePublish), another goroutine performs 1-3 drawn operations (store / overwrite / delete / failing store); at quiescence, before any further cycle: reported bytes/entries == what Get returns (== directory); non-trivial = an operation in the window changed the stored bytes; distinct by case",
	func(c Window, o *ev.Obs) *ev.Failure {
		k := cachekit.New(cachekit.Opts{Backend: c.Backend, Shards: c.Shards, MaxSize: c.MaxSize})
		defer k.Close()
		far, past := time.Now().Add(time.Hour), time.Now().Add(-time.Hour)
		ver := 0
		apply := func(op Op) {
			switch op.Kind {
			case "store":
				ver++
				exp := far
				if op.Expired {
					exp = past
				}
				failAt := -1
				if op.Fault == "fail" {
					failAt = op.FailAt % (op.Size + 1)
				}
				if e, err := k.Store(op.Key, ver, op.Size, exp, failAt); err == nil && e.Data != nil {
					e.Data.Close()
				}
			case "delete":
				k.C.Delete(cachekit.Key(op.Key))
			}
		}
		for _, op := range c.Pre {
			apply(op)
		}
		before := k.Measure(universe)
		fired, blocked := 0, false
		var inWindow sync.WaitGroup
		verifhook.Set(func(name string, args ...string) {
			if name != "janitor.beforePublish" || fired > 0 {
				return
			}
			fired++
			done := make(chan struct{})
			inWindow.Add(1)
			go func() {
				defer inWindow.Done()
				defer close(done)
				for _, op := range c.During {
					op.Expired = false
					apply(op)
				}
			}()
			select {
			case <-done:
			case <-time.After(2 * time.Second):
				blocked = true // the janitor holds something the operation needs: then it is not "in the window"
			}
		})
		k.C.VerifRunCleanupCycle()
		verifhook.Set(nil)
		inWindow.Wait()
		after := k.Measure(universe)
		o.Class("backend:" + c.Backend)
		o.Classf("window-reached:%v", fired > 0)
		o.Classf("blocked:%v", blocked)
		o.Classf("limit:%v", c.MaxSize > 0)
		o.NonTrivial = fired > 0 && !blocked && before.DataBytes != after.DataBytes
		return invariant(k, "a cleanup cycle with operations of another goroutine between the janitor's size reading and its publication")
	})

func drawWindow(t *rapid.T) Window {
	c := Window{Backend: rapid.SampledFrom([]string{"memory", "file"}).Draw(t, "backend"), Shards: rapid.SampledFrom([]int{1, 2, 16}).Draw(t, "shards")}
	if rapid.IntRange(0, 2).Draw(t, "limited") == 0 {
		c.MaxSize = rapid.SampledFrom([]int64{150, 3000, 6000}).Draw(t, "limit")
	}
	drawSD := func(label string) Op {
		if rapid.IntRange(0, 3).Draw(t, label+"-kind") == 0 {
			return Op{Kind: "delete", Key: rapid.IntRange(0, universe-1).Draw(t, "key")}
		}
		op := Op{Kind: "store", Key: rapid.IntRange(0, universe-1).Draw(t, "key"), Size: rapid.SampledFrom([]int{1, 100, 100, 5000}).Draw(t, "size"),
			Expired: rapid.IntRange(0, 3).Draw(t, "expired") == 0}
		if rapid.IntRange(0, 5).Draw(t, "fault") == 0 {
			op.Fault, op.FailAt = "fail", rapid.IntRange(0, 5000).Draw(t, "fail-at")
		}
		return op
	}
	for i, n := 0, rapid.IntRange(0, 6).Draw(t, "pre"); i < n; i++ {
		c.Pre = append(c.Pre, drawSD("pre"))
	}
	for i, n := 0, rapid.IntRange(1, 3).Draw(t, "during"); i < n; i++ {
		c.During = append(c.During, drawSD("during"))
	}
	return c
}

func TestSizeAccountingPublishWindow(t *testing.T) {
	subWindow.CheckSalt(t, 4, ev.N(1500, 100000), drawWindow)
}
