package c01

import (
	"bytes"
	"errors"
	"fmt"
	"io"
	"strings"
	"testing"
	"time"

	"pgregory.net/rapid"
	"reservoir/cache"

	"verifharness/internal/cachekit"
	"verifharness/internal/ev"
)

func TestMain(m *testing.M)   { ev.Main(m, "C01") }
func TestReplay(t *testing.T) { ev.ReplayWitnesses(t) }

const universe = 4

type Op struct {
	Kind   string `json:"kind"` // store | open | read | readat | seek | close | delete | update | cycle | limit
	Key    int    `json:"key,omitempty"`
	Size   int    `json:"size,omitempty"`
	Fault  string `json:"fault,omitempty"` // "" | fail | empty
	FailAt int    `json:"fail_at,omitempty"`
	Reader int    `json:"reader,omitempty"`
	N      int    `json:"n,omitempty"`
	Off    int    `json:"off,omitempty"`
	Limit  int64  `json:"limit,omitempty"`
}

type Seq struct {
	Backend string `json:"backend"`
	Shards  int    `json:"shards"`
	Ops     []Op   `json:"ops"`
}

func (s Seq) String() string {
	var b strings.Builder
	for _, o := range s.Ops {
		switch o.Kind {
		case "store":
			fmt.Fprintf(&b, "store(k%d,%d%s) ", o.Key, o.Size, map[string]string{"": "", "fail": fmt.Sprintf(",fail@%d", o.FailAt), "empty": ",empty"}[o.Fault])
		case "open", "delete", "update":
			fmt.Fprintf(&b, "%s(k%d) ", o.Kind, o.Key)
		case "read":
			fmt.Fprintf(&b, "read(r%d,%d) ", o.Reader, o.N)
		case "readat":
			fmt.Fprintf(&b, "readat(r%d,%d,%d) ", o.Reader, o.Off, o.N)
		case "seek", "close":
			fmt.Fprintf(&b, "%s(r%d,%d) ", o.Kind, o.Reader, o.Off)
		case "limit":
			fmt.Fprintf(&b, "limit(%d) ", o.Limit)
		default:
			b.WriteString(o.Kind + " ")
		}
	}
	return b.String()
}

type reader struct {
	key, ver, length int
	data             cache.EntryData
	meta             *cache.EntryMetadata[cachekit.Meta]
	pos              int
	crossed          map[string]bool // mutating ops on its key while open
	startPos         int
}

var subAPI = ev.Register("cache-api-readers",
	"operation sequences on the real memory and file backends over a 4-key universe with harness-owned reader positions: store(k, size in {1,2,100,4096,70000,1 MiB}, source failing after n bytes / empty), open (Get), read / readAt / seek / close on any open reader, delete, update-metadata, synchronous cleanup cycle, limit change + cycle; oracle: every byte any reader returns is the byte of the version it opened at that offset and the reader ends exactly at that version's length, Metadata.Size/Object are those of the same Cache() call, a Get after a successful store returns the new version, after a delete not-found, after a failed store an error or a complete earlier version; non-trivial = a reader was open across a mutating operation on its own key or a store failed part-way onto a live key; distinct by (backend, mutating op, reader position class, size class)",
	func(s Seq, o *ev.Obs) *ev.Failure {
		k := cachekit.New(cachekit.Opts{Backend: s.Backend, Shards: s.Shards})
		defer k.Close()
		far := time.Now().Add(time.Hour)
		type ver struct{ v, n int }
		current := map[int]ver{}  // model: the version a Get must return (absent = must be not-found, unless unknown)
		unknown := map[int]bool{} // after evictions the model does not say whether the key exists
		nver := 0
		evicting := false
		var readers []*reader
		canon := map[string]bool{}
		defer func() {
			for _, r := range readers {
				if r != nil {
					r.data.Close()
				}
			}
		}()
		mark := func(key int, what string) {
			for _, r := range readers {
				if r != nil && r.key == key {
					r.crossed[what] = true
					posClass := "middle"
					if r.pos == 0 {
						posClass = "start"
					} else if r.pos >= r.length {
						posClass = "eof"
					}
					canon[fmt.Sprintf("%s|%s|%s|%s", s.Backend, what, posClass, sizeClass(r.length))] = true
					o.NonTrivial = true
				}
			}
		}
		fail := func(sig, format string, a ...any) *ev.Failure {
			return ev.Failf(sig, "%s :: %s", s.String(), fmt.Sprintf(format, a...))
		}
		for i, op := range s.Ops {
			switch op.Kind {
			case "store":
				nver++
				size, failAt := op.Size, -1
				if op.Fault == "fail" {
					failAt = op.FailAt % (size + 1)
				} else if op.Fault == "empty" {
					size = 0
				}
				prev, hadPrev := current[op.Key]
				e, err := k.Store(op.Key, nver, size, far, failAt)
				if err != nil {
					if op.Fault == "fail" && hadPrev {
						o.NonTrivial = true
						o.Class("failed-store-onto-live-key")
						canon[s.Backend+"|failed-store|"+sizeClass(prev.n)] = true
					}
					// a failed store: the key must yield an error or a complete earlier version (checked on open)
					if op.Fault == "" {
						unknown[op.Key] = true // refused (cache full): eviction may have happened
					}
					if evicting {
						for key := range current {
							unknown[key] = true
						}
					}
					mark(op.Key, "failed-store")
					continue
				}
				if op.Fault == "fail" {
					e.Data.Close()
					return fail("content.failed-source-stored", "step %d: source failed after %d of %d bytes but the store succeeded", i, failAt, size)
				}
				mark(op.Key, "overwrite")
				want := cachekit.Body(op.Key, nver, size)
				got, rerr := io.ReadAll(e.Data)
				e.Data.Close()
				if rerr != nil || !bytes.Equal(got, want) {
					return fail("content.returned-entry-differs", "step %d: the entry returned by Cache() reads %d bytes (err %v), stored %d", i, len(got), rerr, len(want))
				}
				if e.Metadata.Size != int64(size) || e.Metadata.Object.Ver != nver || e.Metadata.Object.Len != size {
					return fail("content.metadata-mispaired", "step %d: stored version %d of %d bytes, metadata says version %d, Size %d", i, nver, size, e.Metadata.Object.Ver, e.Metadata.Size)
				}
				current[op.Key] = ver{nver, size}
				delete(unknown, op.Key)
				if evicting {
					// a store at or over the limit evicts: the model no longer says which other keys exist
					for key := range current {
						if key != op.Key {
							unknown[key] = true
						}
					}
				}
			case "open":
				e, err := k.C.Get(cachekit.Key(op.Key))
				cur, have := current[op.Key]
				if err != nil {
					if !errors.Is(err, cache.ErrCacheEntryNotFound) {
						return fail("content.get-error", "step %d: Get(k%d): %v", i, op.Key, err)
					}
					if have && !unknown[op.Key] {
						return fail("content.entry-lost", "step %d: Get(k%d) says not found but version %d was stored and never removed", i, op.Key, cur.v)
					}
					continue
				}
				if !unknown[op.Key] {
					if !have {
						e.Data.Close()
						return fail("content.resurrected", "step %d: Get(k%d) returned version %d after the entry was removed", i, op.Key, e.Metadata.Object.Ver)
					}
					if e.Metadata.Object.Ver != cur.v {
						e.Data.Close()
						return fail("content.replaced-version-served", "step %d: Get(k%d) returned version %d, the current one is %d", i, op.Key, e.Metadata.Object.Ver, cur.v)
					}
				}
				if e.Metadata.Size != int64(e.Metadata.Object.Len) {
					e.Data.Close()
					return fail("content.metadata-mispaired", "step %d: version %d has %d bytes, Metadata.Size %d", i, e.Metadata.Object.Ver, e.Metadata.Object.Len, e.Metadata.Size)
				}
				readers = append(readers, &reader{key: op.Key, ver: e.Metadata.Object.Ver, length: e.Metadata.Object.Len, data: e.Data, meta: e.Metadata, crossed: map[string]bool{}})
			case "read", "readat", "seek", "close":
				live := 0
				for _, r := range readers {
					if r != nil {
						live++
					}
				}
				if live == 0 {
					continue
				}
				idx := op.Reader % len(readers)
				for readers[idx] == nil {
					idx = (idx + 1) % len(readers)
				}
				r := readers[idx]
				want := cachekit.Body(r.key, r.ver, r.length)
				switch op.Kind {
				case "read":
					buf := make([]byte, op.N)
					n, err := io.ReadFull(r.data, buf)
					exp := want[min(r.pos, len(want)):min(r.pos+op.N, len(want))]
					if !bytes.Equal(buf[:n], exp) {
						return fail("content.torn-read:"+crossedClass(r), "step %d: reader of k%d version %d (%d bytes) at offset %d asked %d bytes: got %d bytes that are not that version's (crossed: %v; got %q want %q)", i, r.key, r.ver, r.length, r.pos, op.N, n, keysOf(r.crossed), clip(buf[:n]), clip(exp))
					}
					if err != nil && err != io.EOF && err != io.ErrUnexpectedEOF {
						return fail("content.read-error:"+crossedClass(r), "step %d: reader of k%d version %d: %v (crossed %v)", i, r.key, r.ver, err, keysOf(r.crossed))
					}
					r.pos += n
				case "readat":
					off := op.Off % (r.length + 1)
					buf := make([]byte, op.N)
					n, _ := r.data.ReadAt(buf, int64(off))
					exp := want[off:min(off+op.N, len(want))]
					if !bytes.Equal(buf[:n], exp) {
						return fail("content.torn-read:"+crossedClass(r), "step %d: ReadAt(%d,%d) on reader of k%d version %d returned %d bytes that are not that version's (crossed %v)", i, off, op.N, r.key, r.ver, n, keysOf(r.crossed))
					}
				case "seek":
					off := op.Off % (r.length + 1)
					if p, err := r.data.Seek(int64(off), io.SeekStart); err == nil {
						r.pos = int(p)
					}
				case "close":
					// drain first: the reader must end exactly at its version's length
					rest, err := io.ReadAll(r.data)
					exp := want[min(r.pos, len(want)):]
					if err != nil || !bytes.Equal(rest, exp) {
						return fail("content.torn-read:"+crossedClass(r), "step %d: draining reader of k%d version %d from offset %d: got %d bytes (err %v), that version has %d left (crossed %v)", i, r.key, r.ver, r.pos, len(rest), err, len(exp), keysOf(r.crossed))
					}
					if r.meta.Size != int64(r.length) || r.meta.Object.Ver != r.ver {
						return fail("content.metadata-mispaired", "step %d: reader of version %d (%d bytes) now sees metadata version %d Size %d", i, r.ver, r.length, r.meta.Object.Ver, r.meta.Size)
					}
					r.data.Close()
					readers[idx] = nil
				}
			case "delete":
				err := k.C.Delete(cachekit.Key(op.Key))
				if err == nil || errors.Is(err, cache.ErrCacheEntryNotFound) {
					if _, had := current[op.Key]; had {
						mark(op.Key, "delete")
					}
					delete(current, op.Key)
					delete(unknown, op.Key)
				}
			case "update":
				k.C.UpdateMetadata(cachekit.Key(op.Key), func(m *cache.EntryMetadata[cachekit.Meta]) { m.Expires = far.Add(time.Minute) })
			case "cycle":
				k.C.VerifRunCleanupCycle()
				if evicting {
					for key := range current {
						unknown[key] = true
					}
				}
			case "limit":
				k.SetLimit(op.Limit)
				evicting = evicting || op.Limit < 1<<30 // sticky: limit notifications are asynchronous and unordered (C19's subject)
				k.C.VerifRunCleanupCycle()
				for key := range current {
					unknown[key] = true
					mark(key, "eviction")
				}
			}
		}
		var cs []string
		for c := range canon {
			cs = append(cs, c)
		}
		if len(cs) > 0 {
			o.Canon = strings.Join(sortStrings(cs), ";")
		}
		o.Class("backend:" + s.Backend)
		for c := range canon {
			parts := strings.Split(c, "|")
			if len(parts) > 1 {
				o.Class("crossed:" + parts[1])
			}
		}
		return nil
	})

func sortStrings(s []string) []string {
	for i := range s {
		for j := i + 1; j < len(s); j++ {
			if s[j] < s[i] {
				s[i], s[j] = s[j], s[i]
			}
		}
	}
	return s
}

func clip(b []byte) string {
	if len(b) > 24 {
		b = b[:24]
	}
	return string(b)
}

func keysOf(m map[string]bool) []string {
	var out []string
	for k := range m {
		out = append(out, k)
	}
	return sortStrings(out)
}

func crossedClass(r *reader) string {
	if len(r.crossed) == 0 {
		return "undisturbed"
	}
	return strings.Join(keysOf(r.crossed), "+")
}

func sizeClass(n int) string {
	switch {
	case n <= 2:
		return "tiny"
	case n <= 4096:
		return "small"
	case n <= 70000:
		return "medium"
	default:
		return "large"
	}
}

// drawSize: the old fixed sizes, the neighbourhood of every power of two from 1 KiB to 1 MiB (buffer pools, read
// chunks and copy loops change behaviour there), or any size up to 200 kB.
func drawSize(t *rapid.T) int {
	switch rapid.IntRange(0, 2).Draw(t, "size-kind") {
	case 0:
		return rapid.SampledFrom([]int{1, 2, 100, 100, 4096, 70000, 70000, 1 << 20}).Draw(t, "size")
	case 1:
		return 1<<rapid.IntRange(10, 20).Draw(t, "pow") + rapid.SampledFrom([]int{-512, -1, 0, 1}).Draw(t, "around")
	}
	return rapid.IntRange(1, 200000).Draw(t, "any-size")
}
func drawSeq(t *rapid.T) Seq {
	s := Seq{Backend: rapid.SampledFrom([]string{"memory", "file", "file"}).Draw(t, "backend"), Shards: rapid.SampledFrom([]int{1, 2, 16}).Draw(t, "shards")}
	n := rapid.IntRange(3, 30).Draw(t, "n")
	for i := 0; i < n; i++ {
		var op Op
		switch rapid.IntRange(0, 15).Draw(t, "op") {
		case 0, 1, 2, 3:
			op = Op{Kind: "store", Key: rapid.IntRange(0, universe-1).Draw(t, "key"), Size: drawSize(t)}
			if op.Size == 1<<20 && rapid.IntRange(0, 2).Draw(t, "big") != 0 {
				op.Size = 50
			}
			switch rapid.IntRange(0, 6).Draw(t, "fault") {
			case 0:
				op.Fault, op.FailAt = "fail", rapid.IntRange(0, 70000).Draw(t, "fail_at")
			case 1:
				op.Fault = "empty"
			}
		case 4, 5, 6:
			op = Op{Kind: "open", Key: rapid.IntRange(0, universe-1).Draw(t, "key")}
		case 7, 8, 9:
			op = Op{Kind: "read", Reader: rapid.IntRange(0, 7).Draw(t, "reader"), N: rapid.SampledFrom([]int{1, 10, 50, 5000, 100000}).Draw(t, "n")}
		case 10:
			op = Op{Kind: "readat", Reader: rapid.IntRange(0, 7).Draw(t, "reader"), Off: rapid.IntRange(0, 80000).Draw(t, "off"), N: rapid.SampledFrom([]int{1, 40, 5000}).Draw(t, "n")}
		case 11:
			op = Op{Kind: "seek", Reader: rapid.IntRange(0, 7).Draw(t, "reader"), Off: rapid.IntRange(0, 80000).Draw(t, "off")}
		case 12:
			op = Op{Kind: "close", Reader: rapid.IntRange(0, 7).Draw(t, "reader")}
		case 13:
			op = Op{Kind: "delete", Key: rapid.IntRange(0, universe-1).Draw(t, "key")}
		case 14:
			op = rapid.SampledFrom([]Op{{Kind: "cycle"}, {Kind: "update", Key: 0}, {Kind: "update", Key: 1}}).Draw(t, "misc")
		case 15:
			op = Op{Kind: "limit", Limit: rapid.SampledFrom([]int64{1, 150, 80000, 1 << 30}).Draw(t, "limit")}
		}
		s.Ops = append(s.Ops, op)
	}
	// always end by draining every reader
	for r := 0; r < 8; r++ {
		s.Ops = append(s.Ops, Op{Kind: "close", Reader: r})
	}
	return s
}

func TestCacheAPIReaders(t *testing.T) {
	subAPI.CheckSalt(t, 1, ev.N(1500, 160000), drawSeq)
}
