package c01

// What a Get hands out is one version: the metadata (size, version tag) and the body behind the handle
// belong together, also when an overwrite of the same key completes while the Get is under way. The
// window between reading the metadata and opening the body is a few instructions wide; the workload
// keeps overwriting one key with versions of different lengths while readers Get it in a tight loop.

import (
	"bytes"
	"fmt"
	"io"
	"sync"
	"sync/atomic"
	"testing"
	"time"

	"pgregory.net/rapid"

	"verifharness/internal/cachekit"
	"verifharness/internal/ev"
)

type GetVsOverwrite struct {
	Backend string `json:"backend"`
	Shards  int    `json:"shards"`
	Readers int    `json:"readers"`
	Sizes   []int  `json:"sizes"` // the versions' lengths, used in turn
	Ms      int    `json:"ms"`    // how long the workload runs
	Delete  bool   `json:"delete"`
}

var subGetVsOverwrite = ev.Register("get-vs-overwrite",
	"one key is overwritten in a tight loop with versions of 2-4 different lengths (optionally deleted in between) while 2-8 readers Get it as fast as they can, for 30-120 ms; oracle: every successful Get returns one version - Metadata.Size, the harness's version tag in the metadata and the bytes read from the handle agree; non-trivial = at least 50 overwrites and 200 reads happened; distinct by case",
	func(c GetVsOverwrite, o *ev.Obs) *ev.Failure {
		k := cachekit.New(cachekit.Opts{Backend: c.Backend, Shards: c.Shards})
		defer k.Close()
		far := time.Now().Add(time.Hour)
		var stop atomic.Bool
		var writes, reads atomic.Int64
		var mu sync.Mutex
		var fail *ev.Failure
		var wg sync.WaitGroup
		wg.Add(1)
		go func() {
			defer wg.Done()
			for v := 1; !stop.Load(); v++ {
				if e, err := k.Store(0, v, c.Sizes[v%len(c.Sizes)], far, -1); err == nil && e.Data != nil {
					e.Data.Close()
				}
				writes.Add(1)
				if c.Delete && v%5 == 0 {
					k.C.Delete(cachekit.Key(0))
				}
			}
		}()
		for r := 0; r < c.Readers; r++ {
			wg.Add(1)
			go func() {
				defer wg.Done()
				for !stop.Load() {
					e, err := k.C.Get(cachekit.Key(0))
					if err != nil {
						continue
					}
					b, rerr := io.ReadAll(e.Data)
					e.Data.Close()
					reads.Add(1)
					m := e.Metadata
					want := cachekit.Body(0, m.Object.Ver, m.Object.Len)
					if rerr != nil || int64(len(b)) != m.Size || !bytes.Equal(b, want) {
						mu.Lock()
						if fail == nil {
							fail = ev.Failf("content.metadata-body-mismatch", "%s backend: a Get returned the metadata of version %d (Size %d, length %d) together with a body of %d bytes that %s (read error: %v)", c.Backend, m.Object.Ver, m.Size, m.Object.Len, len(b), describe(b), rerr)
						}
						mu.Unlock()
						stop.Store(true)
						return
					}
				}
			}()
		}
		time.Sleep(time.Duration(c.Ms) * time.Millisecond)
		stop.Store(true)
		wg.Wait()
		o.Class("backend:" + c.Backend)
		o.NonTrivial = writes.Load() >= 50 && reads.Load() >= 200
		return fail
	})

func describe(b []byte) string {
	for v := 1; v < 100000 && len(b) > 0; v++ {
		if bytes.Equal(b, cachekit.Body(0, v, len(b))) {
			return fmt.Sprintf("is version %d's", v)
		}
		if v > 5000 {
			break
		}
	}
	return "is no single version's"
}

func TestGetVsOverwrite(t *testing.T) {
	subGetVsOverwrite.CheckSalt(t, 23, ev.N(30, 1500), func(t *rapid.T) GetVsOverwrite {
		return GetVsOverwrite{
			Backend: rapid.SampledFrom([]string{"file", "file", "memory"}).Draw(t, "backend"),
			Shards:  rapid.SampledFrom([]int{1, 16}).Draw(t, "shards"),
			Readers: rapid.IntRange(2, 8).Draw(t, "readers"),
			Sizes:   rapid.SliceOfNDistinct(rapid.SampledFrom([]int{1, 100, 1000, 3000, 70000}), 2, 4, rapid.ID[int]).Draw(t, "sizes"),
			Ms:      rapid.SampledFrom([]int{30, 60, 120}).Draw(t, "ms"),
			Delete:  rapid.IntRange(0, 3).Draw(t, "delete") == 0,
		}
	})
}
