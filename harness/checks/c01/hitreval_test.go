package c01

// Hits and revalidations of one entry at the same time: with a lifetime of a few milliseconds some
// clients are served from the store while others find the entry stale and renew it (origin answers 304).
// The oracle is C01's (every 200 is the complete body with its own validators); the workload is also
// one of C15's race-instrumented runs, where it puts readers of an entry's metadata next to the
// revalidation that renews it.

import (
	"bytes"
	"fmt"
	"net/http"
	"strings"
	"sync"
	"testing"
	"time"

	"pgregory.net/rapid"

	"verifharness/internal/ev"
	"verifharness/internal/origin"
	"verifharness/internal/px"
)

type HitReval struct {
	Backend    string `json:"backend"`
	Transport  string `json:"transport"`
	Clients    int    `json:"clients"`
	Gets       int    `json:"gets"`
	LifetimeMs int    `json:"lifetime_ms"`
	Len        int    `json:"len"`
	// ViaLines: the origin's answer carries this many Via lines (and as many Cache-Status lines) of upstream
	// intermediaries; the proxy appends its own entry for every answer it builds from the stored header block
	ViaLines int    `json:"via_lines,omitempty"`
	Raw304   string `json:"raw_304,omitempty"` // "" | len0 | typed: the origin's 304s carry a Content-Length (and Content-Type) of their own
}

var subHitReval = ev.Register("hit-vs-revalidate",
	"4-12 clients issue 20-80 GETs each for one resource whose lifetime is 1-5 ms (so hits, expiries and 304 revalidations of the same entry interleave all the time; the origin never changes the resource; its 304s are net/http's or hand-written ones carrying a Content-Length/Content-Type of their own); oracle: every answer is a 200 with the complete body, the resource's ETag and media type, and the origin's 0-5 Via lines followed by exactly one entry of the proxy's own, the origin is only ever asked conditionally after the first fetch; non-trivial = both hits and revalidations occurred; distinct by case",
	func(c HitReval, o *ev.Obs) *ev.Failure {
		site := origin.NewSite()
		v := origin.Version{Ver: 1, Len: c.Len, ETag: `"hr-1"`}
		switch c.Raw304 {
		case "len0":
			v.Raw304 = []origin.HV{{K: "Content-Length", V: "0"}}
		case "typed":
			v.Raw304 = []origin.HV{{K: "Content-Length", V: "7"}, {K: "Content-Type", V: "text/x-of-the-304"}}
		}
		var wantVia []string
		for i := 0; i < c.ViaLines; i++ {
			wantVia = append(wantVia, fmt.Sprintf("1.1 upstream-%d", i))
			v.Headers = append(v.Headers, origin.HV{K: "Via", V: wantVia[i]}, origin.HV{K: "Cache-Status", V: fmt.Sprintf("upstream-%d; fwd=miss", i)})
		}
		site.Set("/h", "hr", v)
		org := origin.New(site.Handler())
		defer org.Close()
		env := px.New(px.Opts{Backend: c.Backend, DefaultMaxAge: time.Duration(c.LifetimeMs) * time.Millisecond})
		defer env.Close()
		want := origin.BodyOf("hr", v)
		var mu sync.Mutex
		var fail *ev.Failure
		hits, revals := 0, 0
		var wg sync.WaitGroup
		for ci := 0; ci < c.Clients; ci++ {
			wg.Add(1)
			go func(ci int) {
				defer wg.Done()
				for g := 0; g < c.Gets; g++ {
					resp, err := env.Via(c.Transport, px.Req{Method: "GET", Host: org.Addr(), Target: "/h", ReqID: fmt.Sprintf("c%d-g%d", ci, g)})
					mu.Lock()
					switch {
					case fail != nil:
					case err != nil:
						fail = ev.Failf("hitreval.no-response", "client %d get %d: %v", ci, g, err)
					case resp.ReadErr != nil:
						fail = ev.Failf("hitreval.body-cut", "client %d get %d: status %d, declared length %s, body ended after %d of %d bytes: %v (X-Cache %q)", ci, g, resp.Status, resp.Header.Get("Content-Length"), len(resp.Body), len(want), resp.ReadErr, resp.Header.Get("X-Cache"))
					case resp.Status != http.StatusOK || !bytes.Equal(resp.Body, want) || resp.Header.Get("ETag") != v.ETag || resp.Header.Get("Content-Type") != "application/octet-stream":
						fail = ev.Failf("hitreval.wrong-answer", "client %d get %d: status %d, %d body bytes (want 200, %d), ETag %q, Content-Type %q, X-Cache %q", ci, g, resp.Status, len(resp.Body), len(want), resp.Header.Get("ETag"), resp.Header.Get("Content-Type"), resp.Header.Get("X-Cache"))
					case !viaOK(resp.Header.Values("Via"), wantVia):
						fail = ev.Failf("hitreval.upstream-via-changed", "client %d get %d: the origin's Via lines %q reached the client as %q (X-Cache %q)", ci, g, wantVia, resp.Header.Values("Via"), resp.Header.Get("X-Cache"))
					case resp.Header.Get("X-Cache") == "HIT":
						hits++
					case resp.Header.Get("X-Cache") == "REVALIDATED":
						revals++
					}
					stop := fail != nil
					mu.Unlock()
					if stop {
						return
					}
				}
			}(ci)
		}
		wg.Wait()
		if p := env.Panics(); p != "" {
			return ev.Failf("hitreval.handler-panic", "%s", p)
		}
		o.NonTrivial = hits > 0 && revals > 0
		o.Classf("hits:%v", hits > 0)
		o.Classf("revalidations:%v", revals > 0)
		return fail
	})

// viaOK: the origin's Via entries come first, unchanged and in order; the proxy adds exactly one entry of its own.
func viaOK(got, want []string) bool {
	if len(want) == 0 {
		return true
	}
	var flat []string
	for _, g := range got {
		for _, p := range strings.Split(g, ",") {
			flat = append(flat, strings.TrimSpace(p))
		}
	}
	if len(flat) != len(want)+1 {
		return false
	}
	for i, w := range want {
		if flat[i] != w {
			return false
		}
	}
	return true
}

func TestHitVsRevalidate(t *testing.T) {
	n := ev.N(24, 600)
	if ev.Race() && !ev.Thorough() {
		n = 20 // the one workload that puts hits next to revalidations of the same entry: not a quarter of it
	}
	subHitReval.CheckSalt(t, 21, n, func(t *rapid.T) HitReval {
		return HitReval{
			Backend:    rapid.SampledFrom([]string{"memory", "file"}).Draw(t, "backend"),
			Transport:  rapid.SampledFrom([]string{"plain", "plain", "tunnel"}).Draw(t, "transport"),
			Clients:    rapid.IntRange(4, 12).Draw(t, "clients"),
			Gets:       rapid.IntRange(20, 80).Draw(t, "gets"),
			LifetimeMs: rapid.SampledFrom([]int{1, 2, 5}).Draw(t, "lifetime"),
			Len:        rapid.SampledFrom([]int{10, 3000, 70000}).Draw(t, "len"),
			Raw304:     rapid.SampledFrom([]string{"", "len0", "typed"}).Draw(t, "raw304"),
			ViaLines:   rapid.SampledFrom([]int{0, 1, 2, 3, 3, 5}).Draw(t, "via-lines"),
		}
	})
}
