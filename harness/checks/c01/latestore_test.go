package c01

import (
	"bytes"
	"fmt"
	"net/http"
	"strconv"
	"sync"
	"sync/atomic"
	"testing"
	"time"

	"pgregory.net/rapid"

	"verifharness/internal/ev"
	"verifharness/internal/origin"
	"verifharness/internal/px"
)

// LateStore: an origin answer for an OLD version is held back (harness-owned gate) while a NEWER
// version is fetched, stored and delivered; then the old answer is released. A request that starts
// afterwards must not receive the old version.
type LateStore struct {
	Backend   string `json:"backend"`
	Transport string `json:"transport"`
	Held      string `json:"held"`  // kind of the request whose answer is held back: "range" | "get"
	Newer     string `json:"newer"` // kind of the request that stores the newer version: "get" | "range"
	Len       int    `json:"len"`
	Primed    bool   `json:"primed"` // an even older version is stored (and expired) before
}

var subLate = ev.Register("late-store",
	"harness-gated history: the origin's answer carrying version n is held back while version n+1 is fetched, stored and delivered to another client; then the held answer is released and a new request is made; oracle: the new request never receives version n (the replaced body); cases over which request kinds hold / store (Range GETs are not coalesced, plain GETs are), backend, transport, body size, cold or stale entry; non-trivial = the newer version was delivered from the store before the held answer was released; distinct by case",
	func(c LateStore, o *ev.Obs) *ev.Failure {
		var ver atomic.Int64
		ver.Store(1)
		gate := make(chan struct{})
		var once sync.Once
		release := func() { once.Do(func() { close(gate) }) }
		defer release()
		org := origin.New(func(w http.ResponseWriter, r *http.Request, _ []byte, e *origin.Entry) {
			v := int(ver.Load())
			e.Ver, e.Status = v, 200
			e.Commit()
			body := origin.Content("ls", v, c.Len+v)
			w.Header().Set("ETag", fmt.Sprintf(`"ls-v%d"`, v))
			w.Header().Set("Content-Length", strconv.Itoa(len(body)))
			if r.Header.Get("X-Verif-Req") == "held" {
				<-gate // the answer (already bound to version v) is delayed
			}
			w.Write(body)
		})
		defer org.Close()
		env := px.New(px.Opts{Backend: c.Backend, DefaultMaxAge: 60 * time.Millisecond})
		defer env.Close()
		mk := func(id, kind string) px.Req {
			r := px.Req{Method: "GET", Host: org.Addr(), Target: "/ls", ReqID: id}
			if kind == "range" {
				r.Headers = []px.H{{K: "Range", V: "bytes=0-9"}}
			}
			return r
		}
		if c.Primed {
			if _, err := env.Via(c.Transport, mk("prime", "get")); err != nil {
				return ev.Failf("late-store.harness", "prime: %v", err)
			}
			time.Sleep(90 * time.Millisecond) // let it go stale
			ver.Add(1)
		}
		old := int(ver.Load())
		heldDone := make(chan *px.Resp, 1)
		go func() {
			resp, _ := env.Via(c.Transport, mk("held", c.Held))
			heldDone <- resp
		}()
		// wait until the origin has bound the held answer to the old version
		deadline := time.Now().Add(5 * time.Second)
		for len(org.ByReqID("held")) == 0 {
			if time.Now().After(deadline) {
				return ev.Failf("late-store.harness", "held request never reached the origin")
			}
			time.Sleep(200 * time.Microsecond)
		}
		ver.Add(1)
		newer := old + 1
		type res struct {
			r   *px.Resp
			err error
		}
		nd := make(chan res, 1)
		go func() {
			r, err := env.Via(c.Transport, mk("newer", c.Newer))
			nd <- res{r, err}
		}()
		delivered := false
		select {
		case x := <-nd:
			if x.err == nil && (x.r.Status == 200 || x.r.Status == 206) {
				delivered = true
				o.Class("newer-delivered-before-release")
			}
		case <-time.After(150 * time.Millisecond):
			// the newer request is itself waiting for the held one (same coalesced flight): nothing was replaced
			o.Class("newer-coalesced-with-held")
		}
		release()
		<-heldDone
		if !delivered {
			<-nd
		}
		resp, err := env.Via(c.Transport, mk("after", "get"))
		if p := env.Panics(); p != "" {
			return ev.Failf("late-store.handler-panic", "%s", p)
		}
		if err != nil || resp.Status != 200 {
			return ev.Failf("late-store.after-failed", "request after the release failed: %v %v", err, resp)
		}
		o.Class("held:" + c.Held + ",newer:" + c.Newer)
		o.NonTrivial = delivered
		if delivered && bytes.Equal(resp.Body, origin.Content("ls", old, c.Len+old)) {
			return ev.Failf("late-store.resurrected:held-"+c.Held+"-newer-"+c.Newer, "version %d had been fetched, stored and delivered; the delayed answer carrying version %d was then stored over it and a request that started afterwards received version %d (X-Cache %q)", newer, old, old, resp.Header.Get("X-Cache"))
		}
		if !bytes.Equal(resp.Body, origin.Content("ls", newer, c.Len+newer)) && !bytes.Equal(resp.Body, origin.Content("ls", old, c.Len+old)) {
			return ev.Failf("late-store.foreign-body", "request after the release got a body that is no version's")
		}
		return nil
	})

func TestLateStore(t *testing.T) {
	subLate.CheckSalt(t, 3, ev.N(40, 2000), func(t *rapid.T) LateStore {
		return LateStore{
			Backend:   rapid.SampledFrom([]string{"memory", "file"}).Draw(t, "backend"),
			Transport: rapid.SampledFrom([]string{"plain", "tunnel"}).Draw(t, "transport"),
			Held:      rapid.SampledFrom([]string{"range", "get"}).Draw(t, "held"),
			Newer:     rapid.SampledFrom([]string{"get", "range"}).Draw(t, "newer"),
			Len:       rapid.SampledFrom([]int{50, 5000, 100000}).Draw(t, "len"),
			Primed:    rapid.Bool().Draw(t, "primed"),
		}
	})
}
