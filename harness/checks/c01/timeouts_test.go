package c01

import "time"

func init() {
	subAPI.WithTimeout(30 * time.Second)
}
