package c01

import (
	"bytes"
	"fmt"
	"io"
	"net/http"
	"regexp"
	"strconv"
	"sync"
	"sync/atomic"
	"testing"
	"time"

	"pgregory.net/rapid"

	"verifharness/internal/ev"
	"verifharness/internal/origin"
	"verifharness/internal/px"
)

// Act is one client action.
type Act struct {
	Res   int    `json:"res"`
	Kind  string `json:"kind"` // get | range | slow | abort
	A     int    `json:"a,omitempty"`
	B     int    `json:"b,omitempty"`
	Pause int    `json:"pause_ms,omitempty"`
}

type Scenario struct {
	Backend     string   `json:"backend"`
	Transports  []string `json:"transports"` // per client
	Resources   int      `json:"resources"`
	BaseLen     []int    `json:"base_len"`
	LifetimeMs  int      `json:"lifetime_ms"`
	CleanupMs   int      `json:"cleanup_ms"`
	LimitBodies int      `json:"limit_bodies"`
	BumpEveryMs int      `json:"bump_every_ms"`
	AbortVers   []int    `json:"abort_vers"`          // versions whose first transfer the origin aborts part-way
	NoLength    bool     `json:"no_length,omitempty"` // the origin sends its bodies chunked, without Content-Length
	Plans       [][]Act  `json:"plans"`
}

func abortVer(s Scenario, ver int) bool {
	for _, v := range s.AbortVers {
		if v == ver {
			return true
		}
	}
	return false
}

func lenOf(s Scenario, res, ver int) int { return s.BaseLen[res] + 37*ver }
func etagOf(res, ver int) string         { return fmt.Sprintf(`"r%d-v%d"`, res, ver) }
func ctypeOf(res, ver int) string        { return fmt.Sprintf("text/x-r%d-v%d", res, ver) }
func lastModOf(ver int) string {
	return time.Date(2021, 1, 1, 0, 0, ver, 0, time.UTC).Format(http.TimeFormat)
}

var reETag = regexp.MustCompile(`^"r(\d+)-v(\d+)"$`)
var reCR2 = regexp.MustCompile(`^bytes (\d+)-(\d+)/(\d+)$`)

type observation struct {
	res, ver  int
	fromStore bool
	t0, t1    time.Time
	client    int
}

var subE2E = ev.Register("versioned-traffic",
	"4-12 concurrent clients (plain and CONNECT) run pre-drawn plans (GET, single-range GET, slow read, abort mid-body) against 1-3 resources whose origin version advances every few ms (version-specific length, ETag, Last-Modified, Content-Type), with 40-120 ms lifetimes, a 1-5 ms janitor, a cache limit of half a body / one / two / fifty bodies, origin bodies with or without an announced length, and origin transfers that abort part-way; oracle for every 200/206 read to a clean end: the body is exactly one version's body (or the slice named by Content-Range), Content-Length = bytes received, ETag / Last-Modified / Content-Type are that same version's, and no request that starts after a version was delivered from the store receives an older version; an aborted origin transfer never surfaces as a cleanly-ended wrong body; non-trivial = >= 2 versions of one resource observed and a store-served response overlapped another client's transfer of the same resource; distinct by scenario",
	func(s Scenario, o *ev.Obs) *ev.Failure {
		var cutRelays atomic.Int64
		vers := make([]atomic.Int64, s.Resources)
		for i := range vers {
			vers[i].Store(1)
		}
		var abortMu sync.Mutex
		aborted := map[string]bool{}
		org := origin.New(func(w http.ResponseWriter, r *http.Request, _ []byte, e *origin.Entry) {
			var res int
			if _, err := fmt.Sscanf(r.URL.Path, "/r%d", &res); err != nil || res < 0 || res >= s.Resources {
				e.Status = 404
				http.Error(w, "nope", 404)
				return
			}
			v := int(vers[res].Load())
			e.Ver = v
			h := w.Header()
			h.Set("ETag", etagOf(res, v))
			h.Set("Last-Modified", lastModOf(v))
			h.Set("Content-Type", ctypeOf(res, v))
			if inm := r.Header.Get("If-None-Match"); inm != "" && inm == etagOf(res, v) {
				e.Status = 304
				e.Commit()
				w.WriteHeader(304)
				return
			}
			body := origin.Content(fmt.Sprintf("r%d", res), v, lenOf(s, res, v))
			if !s.NoLength {
				h.Set("Content-Length", strconv.Itoa(len(body)))
			}
			e.Status = 200
			e.Commit()
			w.WriteHeader(200)
			doAbort := false
			for _, av := range s.AbortVers {
				if av == v {
					abortMu.Lock()
					key := fmt.Sprintf("%d/%d", res, v)
					if !aborted[key] {
						aborted[key] = true
						doAbort = true
					}
					abortMu.Unlock()
				}
			}
			if doAbort {
				w.Write(body[:len(body)/2])
				if f, ok := w.(http.Flusher); ok {
					f.Flush()
				}
				panic(http.ErrAbortHandler)
			}
			if s.NoLength {
				// no announced length: the response is chunked (flush before the handler returns)
				w.Write(body[:len(body)/3])
				if f, ok := w.(http.Flusher); ok {
					f.Flush()
				}
				w.Write(body[len(body)/3:])
				return
			}
			w.Write(body)
		})
		defer org.Close()
		maxBody := 0
		for r := 0; r < s.Resources; r++ {
			if l := lenOf(s, r, 40); l > maxBody {
				maxBody = l
			}
		}
		limit := int64(s.LimitBodies * maxBody)
		if s.LimitBodies == 0 {
			limit = int64(maxBody/2 + 1) // the largest bodies do not fit into the cache at all
		}
		env := px.New(px.Opts{Backend: s.Backend, Shards: 4, DefaultMaxAge: time.Duration(s.LifetimeMs) * time.Millisecond,
			Cleanup: time.Duration(s.CleanupMs) * time.Millisecond, MaxSize: limit})
		defer env.Close()

		stop := make(chan struct{})
		var bwg sync.WaitGroup
		bwg.Add(1)
		go func() {
			defer bwg.Done()
			tk := time.NewTicker(time.Duration(s.BumpEveryMs) * time.Millisecond)
			defer tk.Stop()
			i := 0
			for {
				select {
				case <-stop:
					return
				case <-tk.C:
					r := i % s.Resources
					if vers[r].Load() < 38 {
						vers[r].Add(1)
					}
					i++
				}
			}
		}()

		began := time.Now()
		var mu sync.Mutex
		var obsv []observation
		var fail *ev.Failure
		setFail := func(f *ev.Failure) {
			mu.Lock()
			if fail == nil {
				fail = f
			}
			mu.Unlock()
		}
		var wg sync.WaitGroup
		for ci, plan := range s.Plans {
			wg.Add(1)
			go func(ci int, plan []Act) {
				defer wg.Done()
				tr := s.Transports[ci%len(s.Transports)]
				for ai, a := range plan {
					if a.Pause > 0 {
						time.Sleep(time.Duration(a.Pause) * time.Millisecond)
					}
					rid := fmt.Sprintf("c%d-a%d", ci, ai)
					req := px.Req{Method: "GET", Host: org.Addr(), Target: fmt.Sprintf("/r%d", a.Res), ReqID: rid}
					if a.Kind == "range" {
						req.Headers = []px.H{{K: "Range", V: fmt.Sprintf("bytes=%d-%d", a.A, a.A+a.B)}}
					}
					st, err := env.Open(tr, req)
					if err != nil {
						// no response at all: acceptable only when the origin aborted this very exchange
						if !originAbortedFor(org, rid) {
							setFail(ev.Failf("traffic.no-response", "%s GET /r%d over %s: %v (the origin aborted nothing for this request)", rid, a.Res, tr, err))
						}
						continue
					}
					var body []byte
					var rerr error
					switch a.Kind {
					case "slow":
						buf := make([]byte, 1+a.A)
						naps := 0
						for {
							n, e := st.Resp.Body.Read(buf)
							body = append(body, buf[:n]...)
							if e != nil {
								if e != io.EOF {
									rerr = e
								}
								break
							}
							if naps < 40 {
								naps++
								time.Sleep(300 * time.Microsecond)
							}
						}
					case "abort":
						buf := make([]byte, 1+a.A)
						io.ReadFull(st.Resp.Body, buf)
						st.Close()
						continue
					default:
						body, rerr = io.ReadAll(st.Resp.Body)
					}
					t1 := time.Now()
					st.Close()
					resp := st.Resp
					if rerr != nil {
						continue // framing not satisfied: the client sees an error, never a clean wrong body
					}
					if resp.StatusCode != 200 && resp.StatusCode != 206 {
						if resp.StatusCode >= 500 && !originAbortedFor(org, rid) && !anyAbort(org) {
							setFail(ev.Failf(fmt.Sprintf("traffic.status-%d", resp.StatusCode), "%s: status %d although the origin answered every request successfully", rid, resp.StatusCode))
						}
						continue
					}
					m := reETag.FindStringSubmatch(resp.Header.Get("ETag"))
					if m == nil {
						setFail(ev.Failf("traffic.etag-missing", "%s: %d without the origin's ETag (got %q)", rid, resp.StatusCode, resp.Header.Get("ETag")))
						continue
					}
					eres, _ := strconv.Atoi(m[1])
					ever, _ := strconv.Atoi(m[2])
					if eres != a.Res {
						setFail(ev.Failf("traffic.other-resource", "%s asked /r%d and got a response carrying ETag %s", rid, a.Res, m[0]))
						continue
					}
					full := origin.Content(fmt.Sprintf("r%d", a.Res), ever, lenOf(s, a.Res, ever))
					want := full
					if resp.StatusCode == 206 {
						cr := reCR2.FindStringSubmatch(resp.Header.Get("Content-Range"))
						if cr == nil {
							setFail(ev.Failf("traffic.206-content-range", "%s: 206 with Content-Range %q", rid, resp.Header.Get("Content-Range")))
							continue
						}
						ca, _ := strconv.Atoi(cr[1])
						cb, _ := strconv.Atoi(cr[2])
						ct, _ := strconv.Atoi(cr[3])
						if ct != len(full) || ca > cb || cb >= len(full) {
							setFail(ev.Failf("traffic.206-out-of-bounds", "%s: Content-Range %s for version %d of %d bytes", rid, cr[0], ever, len(full)))
							continue
						}
						want = full[ca : cb+1]
					}
					if !bytes.Equal(body, want) && s.NoLength && resp.StatusCode == 200 && resp.Header.Get("X-Cache") == "MISS" && abortVer(s, ever) &&
						len(body) < len(want) && bytes.HasPrefix(want, body) {
						// the origin itself cut this chunked transfer short and the proxy relayed it (not built from the
						// store): that the relay ends cleanly is noted in DESIGN 7.2 as outside the twenty properties
						cutRelays.Add(1)
						continue
					}
					if !bytes.Equal(body, want) {
						setFail(ev.Failf("traffic.body-mismatch:"+mismatchKind(body, want, s, a.Res), "%s (%s, %s): status %d ETag %s: body has %d bytes, version %d %s has %d; first difference at %d; X-Cache %q",
							rid, tr, a.Kind, resp.StatusCode, m[0], len(body), ever, map[bool]string{true: "slice", false: "body"}[resp.StatusCode == 206], len(want), firstDiff(body, want), resp.Header.Get("X-Cache")))
						continue
					}
					if cl := resp.Header.Get("Content-Length"); cl != "" && cl != strconv.Itoa(len(body)) {
						setFail(ev.Failf("traffic.content-length", "%s: Content-Length %s, %d bytes received", rid, cl, len(body)))
						continue
					}
					if ct := resp.Header.Get("Content-Type"); ct != ctypeOf(a.Res, ever) {
						setFail(ev.Failf("traffic.mispaired:content-type", "%s: body and ETag are version %d but Content-Type is %q", rid, ever, ct))
						continue
					}
					if lm := resp.Header.Get("Last-Modified"); lm != lastModOf(ever) {
						setFail(ev.Failf("traffic.mispaired:last-modified", "%s: body and ETag are version %d but Last-Modified is %q", rid, ever, lm))
						continue
					}
					xc := resp.Header.Get("X-Cache")
					fromStore := xc == "HIT" || xc == "REVALIDATED" || (xc == "MISS" && regexp.MustCompile(`stored`).MatchString(resp.Header.Get("Cache-Status")))
					mu.Lock()
					obsv = append(obsv, observation{res: a.Res, ver: ever, fromStore: fromStore, t0: st.T0, t1: t1, client: ci})
					mu.Unlock()
				}
			}(ci, plan)
		}
		wg.Wait()
		close(stop)
		bwg.Wait()
		if d := time.Since(began); d > 3*time.Second {
			o.Class("slow-scenario")

		}
		if cutRelays.Load() > 0 {
			o.Class("relayed-cut-origin-transfer")
		}
		if p := env.Panics(); p != "" {
			return ev.Failf("traffic.handler-panic", "%s", p)
		}
		if fail != nil {
			return fail
		}
		// no resurrection
		rangeOn := map[int]bool{}
		for _, plan := range s.Plans {
			for _, a := range plan {
				if a.Kind == "range" {
					rangeOn[a.Res] = true
				}
			}
		}
		o.Classf("range-requests:%v", len(rangeOn) > 0)
		seenVers := map[int]map[int]bool{}
		overlap := false
		for i, a := range obsv {
			if seenVers[a.res] == nil {
				seenVers[a.res] = map[int]bool{}
			}
			seenVers[a.res][a.ver] = true
			for j, b := range obsv {
				if i == j || a.res != b.res {
					continue
				}
				if a.fromStore && b.t0.After(a.t1) && b.ver < a.ver {
					sig := "traffic.resurrected"
					if rangeOn[a.res] {
						// Range GETs are never coalesced and store what they fetched: a known finding when they race a newer fetch
						sig = "traffic.resurrected:range-fetch-involved"
					}
					return ev.Failf(sig, "/r%d: client %d finished receiving version %d from the store at %s; client %d started %v later and received version %d",
						a.res, a.client, a.ver, a.t1.Format("15:04:05.000000"), b.client, b.t0.Sub(a.t1), b.ver)
				}
				if a.fromStore && a.client != b.client && a.t0.Before(b.t1) && b.t0.Before(a.t1) {
					overlap = true
				}
			}
		}
		multi := false
		for _, vs := range seenVers {
			if len(vs) >= 2 {
				multi = true
			}
		}
		o.Classf("responses-verified:%d", bucket(len(obsv)))
		o.Classf("multi-version:%v", multi)
		o.Classf("store-overlap:%v", overlap)
		o.Class("backend:" + s.Backend)
		o.NonTrivial = multi && overlap
		return nil
	})

func bucket(n int) int {
	switch {
	case n < 10:
		return 0
	case n < 50:
		return 10
	case n < 200:
		return 50
	default:
		return 200
	}
}

func originAbortedFor(org *origin.Origin, rid string) bool {
	for _, e := range org.ByReqID(rid) {
		if e.Aborted {
			return true
		}
	}
	return false
}

func anyAbort(org *origin.Origin) bool {
	for _, e := range org.Log() {
		if e.Aborted {
			return true
		}
	}
	return false
}

func firstDiff(a, b []byte) int {
	n := 0
	for n < len(a) && n < len(b) && a[n] == b[n] {
		n++
	}
	return n
}

func mismatchKind(got, want []byte, s Scenario, res int) string {
	switch {
	case len(got) < len(want) && bytes.Equal(got, want[:len(got)]):
		return "truncated"
	case len(got) > len(want) && bytes.Equal(got[:len(want)], want):
		return "extended"
	default:
		return "spliced-or-foreign"
	}
}

func drawScenario(t *rapid.T) Scenario {
	s := Scenario{
		Backend:     rapid.SampledFrom([]string{"memory", "file"}).Draw(t, "backend"),
		Resources:   rapid.IntRange(1, 3).Draw(t, "resources"),
		LifetimeMs:  rapid.SampledFrom([]int{3, 10, 40, 120}).Draw(t, "lifetime"),
		CleanupMs:   rapid.SampledFrom([]int{1, 2, 5}).Draw(t, "cleanup"),
		LimitBodies: rapid.SampledFrom([]int{0, 1, 2, 2, 50}).Draw(t, "limit"),
		NoLength:    rapid.IntRange(0, 2).Draw(t, "no-length") == 0,
		BumpEveryMs: rapid.SampledFrom([]int{1, 3, 8, 200}).Draw(t, "bump"), // 200: versions rarely change, so expired entries are revalidated (304) all the time
	}
	for r := 0; r < s.Resources; r++ {
		s.BaseLen = append(s.BaseLen, rapid.SampledFrom([]int{50, 3000, 70000, 200000}).Draw(t, "len"))
	}
	for i := rapid.IntRange(0, 3).Draw(t, "naborts"); i > 0; i-- {
		s.AbortVers = append(s.AbortVers, rapid.IntRange(2, 12).Draw(t, "abort_ver"))
	}
	kinds := []string{"get", "get", "get", "range", "slow", "abort"}
	if rapid.Bool().Draw(t, "no-range") {
		kinds = []string{"get", "get", "get", "slow", "abort"}
	}
	nc := rapid.IntRange(4, 12).Draw(t, "clients")
	for c := 0; c < nc; c++ {
		s.Transports = append(s.Transports, rapid.SampledFrom([]string{"plain", "plain", "tunnel"}).Draw(t, "transport"))
		var plan []Act
		for i := rapid.IntRange(3, 10).Draw(t, "nacts"); i > 0; i-- {
			a := Act{Res: rapid.IntRange(0, s.Resources-1).Draw(t, "res"), Kind: rapid.SampledFrom(kinds).Draw(t, "kind"),
				Pause: rapid.SampledFrom([]int{0, 0, 1, 3, 10}).Draw(t, "pause")}
			switch a.Kind {
			case "range":
				a.A = rapid.IntRange(0, 40).Draw(t, "a")
				a.B = rapid.IntRange(0, 60).Draw(t, "b")
			case "slow":
				a.A = rapid.SampledFrom([]int{15, 511, 4095}).Draw(t, "chunk")
			case "abort":
				a.A = rapid.IntRange(0, 100).Draw(t, "after")
			}
			plan = append(plan, a)
		}
		s.Plans = append(s.Plans, plan)
	}
	return s
}

func TestVersionedTraffic(t *testing.T) {
	// After an origin-side abort the proxy keeps a CONNECT tunnel open although the response it was
	// writing is short of its Content-Length; the client then waits for its own timeout. That is not
	// a wrong body (the subject here), so the client timeout is kept short to bound the run time.
	old := px.Timeout
	px.Timeout = 2 * time.Second
	defer func() { px.Timeout = old }()
	subE2E.CheckSalt(t, 2, ev.N(120, 6400), drawScenario)
}
