package c17

import (
	"encoding/json"
	"fmt"
	"log/slog"
	"math/big"
	"os"
	"os/exec"
	"path/filepath"
	"regexp"
	"strconv"
	"strings"
	"testing"
	"time"

	"pgregory.net/rapid"
	"reservoir/config"
	"reservoir/utils/bytesize"
	"reservoir/utils/duration"

	"verifharness/internal/cfgkit"
	"verifharness/internal/ev"
)

func TestMain(m *testing.M)   { ev.Main(m, "C17") }
func TestReplay(t *testing.T) { ev.ReplayWitnesses(t) }

// ---------------------------------------------------------------- (i) sizes, durations, levels

type SizeCase struct {
	Bytes int64 `json:"bytes"`
}

var subSizeRT = ev.Register("size-roundtrip",
	"ByteSize(b).String() parsed back for b >= 0 (uniform, powers of 1024 +- 1, non-multiples) and through JSON; oracle: identity; non-trivial = b is not a multiple of its largest fitting unit; distinct by b",
	func(c SizeCase, o *ev.Obs) *ev.Failure {
		b := bytesize.ByteSize(c.Bytes)
		s := b.String()
		o.NonTrivial = c.Bytes >= 1024 && c.Bytes%1024 != 0
		back, err := bytesize.Parse(s)
		if err != nil {
			return ev.Failf("size.string-unparseable", "ByteSize(%d).String() = %q does not parse: %v", c.Bytes, s, err)
		}
		if back != b {
			return ev.Failf("size.string-lossy", "ByteSize(%d).String() = %q reads back as %d", c.Bytes, s, int64(back))
		}
		j, err := json.Marshal(b)
		var jb bytesize.ByteSize
		if err != nil || json.Unmarshal(j, &jb) != nil || jb != b {
			return ev.Failf("size.json-lossy", "ByteSize(%d) -> %s -> %d", c.Bytes, j, int64(jb))
		}
		return nil
	})

type ParseCase struct {
	S string `json:"s"`
}

var reSize = regexp.MustCompile(`^([0-9]+)([BKMGT])$`)
var reDigitsOnly = regexp.MustCompile(`^[0-9]+$`)
var unitOf = map[string]int64{"B": 1, "K": 1 << 10, "M": 1 << 20, "G": 1 << 30, "T": 1 << 40}

var subParse = ev.Register("size-parse",
	"size strings (grammar digits+unit with mutations: trailing characters, several units, no digits, lower case, spaces, signs, decimals, overflowing products) through bytesize.Parse inside recover(); oracle: accepted exactly when the string is digits followed by one of B K M G T and digits x unit fits in int64, and then the value is digits x unit; digits only is left open; non-trivial = not a plain well-formed size; distinct by string",
	func(c ParseCase, o *ev.Obs) *ev.Failure {
		var got bytesize.ByteSize
		var err error
		var pan any
		func() {
			defer func() { pan = recover() }()
			got, err = bytesize.Parse(c.S)
		}()
		if pan != nil {
			return ev.Failf("size.parse-panic", "Parse(%q) panicked: %v", c.S, pan)
		}
		m := reSize.FindStringSubmatch(c.S)
		o.NonTrivial = m == nil
		switch {
		case m != nil:
			n, _ := new(big.Int).SetString(m[1], 10)
			n.Mul(n, big.NewInt(unitOf[m[2]]))
			if n.IsInt64() {
				o.Class("well-formed")
				if err != nil {
					return ev.Failf("size.parse-rejects-valid", "Parse(%q): %v", c.S, err)
				}
				if int64(got) != n.Int64() {
					return ev.Failf("size.parse-wrong-value", "Parse(%q) = %d, want %s", c.S, int64(got), n)
				}
			} else {
				o.Class("overflow")
				if err == nil {
					return ev.Failf("size.parse-overflow-accepted", "Parse(%q) = %d: the value does not fit in 63 bits and must be rejected", c.S, int64(got))
				}
			}
		case reDigitsOnly.MatchString(c.S):
			o.Class("digits-only")
		default:
			o.Class("malformed")
			if err == nil {
				return ev.Failf("size.parse-accepts-malformed:"+malformedClass(c.S), "Parse(%q) = %d: not of the form digits+unit, must be rejected", c.S, int64(got))
			}
		}
		return nil
	})

func malformedClass(s string) string {
	switch {
	case regexp.MustCompile(`^[BKMGT]`).MatchString(s):
		return "no-digits"
	case regexp.MustCompile(`^[0-9]+[BKMGT].+`).MatchString(s):
		return "trailing-characters"
	default:
		return "other"
	}
}

func drawSize(t *rapid.T) SizeCase {
	switch rapid.IntRange(0, 3).Draw(t, "kind") {
	case 0:
		return SizeCase{rapid.Int64Range(0, 1<<62).Draw(t, "b")}
	case 1:
		e := rapid.IntRange(0, 6).Draw(t, "exp")
		return SizeCase{int64(1)<<(10*uint(e)) + rapid.Int64Range(-1, 1).Draw(t, "d") + 1}
	case 2:
		return SizeCase{rapid.Int64Range(0, 5000).Draw(t, "small")}
	default:
		u := rapid.SampledFrom([]int64{1 << 10, 1 << 20, 1 << 30, 1 << 40}).Draw(t, "unit")
		return SizeCase{u*rapid.Int64Range(1, 2000).Draw(t, "mult") + rapid.Int64Range(0, 1).Draw(t, "odd")*rapid.Int64Range(1, 1023).Draw(t, "rest")}
	}
}

func drawParse(t *rapid.T) ParseCase {
	digits := rapid.SampledFrom([]string{"0", "1", "10", "1024", "007", "9223372036854775807", "9223372036854775808", "9007199254740993", "8388608", "8388607", "18446744073709551616", ""}).Draw(t, "digits")
	if rapid.Bool().Draw(t, "rand") {
		digits = fmt.Sprint(rapid.Int64Range(0, 1<<40).Draw(t, "n"))
	}
	unit := rapid.SampledFrom([]string{"B", "K", "M", "G", "T", "T", "k", "KB", "", "P", " K", "Ki"}).Draw(t, "unit")
	s := digits + unit
	for i := rapid.SampledFrom([]int{0, 0, 0, 1, 2}).Draw(t, "nmut"); i > 0; i-- {
		switch rapid.IntRange(0, 7).Draw(t, "mut") {
		case 6, 7:
			// digits of another script (Arabic-Indic, fullwidth, Devanagari, superscript): decimal digits to
			// unicode.IsDigit, not to a size grammar; all of them (6) or a single one (7)
			zero := rapid.SampledFrom([]rune{'٠', '０', '०', '𝟎'}).Draw(t, "script")
			one := -1
			if rapid.Bool().Draw(t, "single") {
				one = rapid.IntRange(0, len(s)).Draw(t, "which")
			}
			var b strings.Builder
			for i, r := range s {
				if r >= '0' && r <= '9' && (one < 0 || i == one) {
					r = zero + (r - '0')
				}
				b.WriteRune(r)
			}
			s = b.String()
		case 0:
			s += rapid.SampledFrom([]string{"xyz", "2", "B", " ", "K", "\n", "0", "²"}).Draw(t, "tail")
		case 1:
			s = rapid.SampledFrom([]string{"-", "+", " ", "0x", "."}).Draw(t, "head") + s
		case 2:
			if len(s) > 0 {
				p := rapid.IntRange(0, len(s)-1).Draw(t, "del")
				s = s[:p] + s[p+1:]
			}
		case 3:
			p := rapid.IntRange(0, len(s)).Draw(t, "ins")
			s = s[:p] + rapid.SampledFrom([]string{".", "K", "_", "5", "é"}).Draw(t, "ch") + s[p:]
		case 4:
			s = strings.ToLower(s)
		case 5:
			s = s + s
		}
	}
	return ParseCase{s}
}

func TestSizeRoundTrip(t *testing.T) { subSizeRT.CheckSalt(t, 1, ev.N(60000, 6000000), drawSize) }
func TestSizeParse(t *testing.T)     { subParse.CheckSalt(t, 2, ev.N(60000, 4000000), drawParse) }

type ScalarCase struct {
	Nanos int64 `json:"nanos"`
	Level int   `json:"level"`
}

var subScalar = ev.Register("duration-level-roundtrip",
	"duration.Duration and slog.Level marshalled to JSON and back; oracle: identity; non-trivial = duration is not a whole number of seconds or level is not a named one; distinct by value",
	func(c ScalarCase, o *ev.Obs) *ev.Failure {
		d := duration.Duration(c.Nanos)
		b, err := json.Marshal(d)
		var back duration.Duration
		if err != nil || json.Unmarshal(b, &back) != nil || back != d {
			return ev.Failf("duration.roundtrip", "Duration(%d ns) -> %s -> %d ns", c.Nanos, b, int64(back))
		}
		l := slog.Level(c.Level)
		lb, err := json.Marshal(l)
		var lback slog.Level
		if err != nil || json.Unmarshal(lb, &lback) != nil || lback != l {
			return ev.Failf("level.roundtrip", "Level(%d) -> %s -> %d", c.Level, lb, lback)
		}
		o.NonTrivial = c.Nanos%1e9 != 0 || c.Level%4 != 0
		return nil
	})

func TestDurationLevelRoundTrip(t *testing.T) {
	subScalar.CheckSalt(t, 3, ev.N(20000, 1000000), func(t *rapid.T) ScalarCase {
		n := rapid.Int64Range(0, 1<<62).Draw(t, "ns")
		if rapid.Bool().Draw(t, "small") {
			n = rapid.Int64Range(0, int64(100*time.Hour)).Draw(t, "ns2")
		}
		return ScalarCase{Nanos: n, Level: rapid.IntRange(-12, 16).Draw(t, "level")}
	})
}

// ---------------------------------------------------------------- (ii) whole configuration through the file

type ConfCase struct {
	Doc cfgkit.Doc `json:"doc"`
}

func inScratch(fn func() *ev.Failure) *ev.Failure {
	old, _ := os.Getwd()
	dir, err := os.MkdirTemp("", "verif-c17-")
	if err != nil {
		return ev.Failf("config.harness", "%v", err)
	}
	defer os.RemoveAll(dir)
	os.MkdirAll(filepath.Join(dir, "var"), 0o755)
	os.Chdir(dir)
	defer os.Chdir(old)
	return fn()
}

var subConf = ev.Register("config-file-roundtrip",
	"a valid configuration (every setting drawn from boundary and random values: byte counts that are and are not unit multiples, durations down to 1 ns, offset log levels, odd paths) applied with UpdatePartialFromConfig (which persists var/config.json in a scratch directory) and loaded again with LoadOrDefault; oracle: Read() of every property found by reflection is identical before saving and after loading; non-trivial = at least one size is not a unit multiple; distinct by value vector",
	func(c ConfCase, o *ev.Obs) *ev.Failure {
		return inScratch(func() *ev.Failure {
			cfg := config.NewDefault()
			if _, err := config.UpdatePartialFromConfig(cfg, c.Doc); err != nil {
				return ev.Failf("config.valid-update-rejected", "a document of valid values was rejected: %v (%v)", err, c.Doc)
			}
			before := cfgkit.Vector(cfg)
			for _, k := range []string{"cache.max_cache_size", "logging.max_size"} {
				var n int64
				fmt.Sscanf(before[k], "%d", &n)
			}
			raw, _ := os.ReadFile("var/config.json")
			loaded, err := config.LoadOrDefault("var/config.json")
			if err != nil {
				return ev.Failf("config.reload-failed", "%v", err)
			}
			after := cfgkit.Vector(loaded)
			js, _ := json.Marshal(c.Doc)
			o.NonTrivial = strings.Contains(string(js), "B\"") && !regexp.MustCompile(`"(1|2|1024|4096|1048576)B"`).Match(js)
			if d := cfgkit.Diff(before, after); len(d) > 0 {
				kind := "other"
				if strings.Contains(d[0], "size") {
					kind = "size"
				}
				return ev.Failf("config.file-roundtrip-differs:"+kind, "saved and reloaded settings differ: %v\nfile:\n%s", d, clip(string(raw), 900))
			}
			return nil
		})
	})

func clip(s string, n int) string {
	if len(s) > n {
		return s[:n] + "…"
	}
	return s
}

func TestConfigFileRoundTrip(t *testing.T) {
	subConf.CheckSalt(t, 4, ev.N(300, 30000), func(t *rapid.T) ConfCase {
		d, _ := cfgkit.DrawDoc(t, rapid.Bool().Draw(t, "all"))
		if len(d) == 0 {
			cfgkit.Set(d, "cache.max_cache_size", "1536B")
		}
		return ConfCase{Doc: d}
	})
}

// ---------------------------------------------------------------- (iii) command-line overrides

type Flag struct {
	Name  string `json:"name"`
	Value string `json:"value"`
	Path  string `json:"path"`
	Want  string `json:"want"` // printed form of the effective value
}

type CLICase struct {
	Flags   []Flag       `json:"flags"`
	Updates []cfgkit.Doc `json:"updates"`
}

var flagPool = []func(t *rapid.T) Flag{
	func(t *rapid.T) Flag { return Flag{"listen", ":1234", "proxy.listen", ":1234"} },
	func(t *rapid.T) Flag { return Flag{"ca-cert", "flag/ca.crt", "proxy.ca_cert", "flag/ca.crt"} },
	func(t *rapid.T) Flag { return Flag{"cache-dir", "flag-cache/", "cache.file.dir", "flag-cache/"} },
	func(t *rapid.T) Flag {
		return Flag{"webserver-listen", "127.0.0.1:7", "webserver.listen", "127.0.0.1:7"}
	},
	func(t *rapid.T) Flag { return Flag{"no-dashboard", "true", "webserver.dashboard_disabled", "true"} },
	func(t *rapid.T) Flag { return Flag{"no-api", "true", "webserver.api_disabled", "true"} },
	func(t *rapid.T) Flag { return Flag{"log-level", "WARN", "logging.level", "4"} },
	func(t *rapid.T) Flag { return Flag{"log-file", "flag.log", "logging.file", "flag.log"} },
	func(t *rapid.T) Flag {
		return Flag{"log-file-max-size", "7M", "logging.max_size", fmt.Sprint(int64(bytesize.ByteSize(7 << 20)))}
	},
	func(t *rapid.T) Flag { return Flag{"log-file-max-backups", "9", "logging.max_backups", "9"} },
	func(t *rapid.T) Flag { return Flag{"log-file-compress", "false", "logging.compress", "false"} },
	// flags that repeat the value the file (here: the default) already holds: still an override that must keep winning
	func(t *rapid.T) Flag { return Flag{"listen", ":9999", "proxy.listen", ":9999"} },
	func(t *rapid.T) Flag { return Flag{"ca-cert", "ssl/ca.crt", "proxy.ca_cert", "ssl/ca.crt"} },
	func(t *rapid.T) Flag { return Flag{"cache-dir", "var/cache/", "cache.file.dir", "var/cache/"} },
	func(t *rapid.T) Flag {
		return Flag{"webserver-listen", "localhost:8080", "webserver.listen", "localhost:8080"}
	},
	func(t *rapid.T) Flag { return Flag{"no-dashboard", "false", "webserver.dashboard_disabled", "false"} },
	func(t *rapid.T) Flag { return Flag{"no-api", "false", "webserver.api_disabled", "false"} },
	func(t *rapid.T) Flag { return Flag{"log-level", "INFO", "logging.level", "0"} },
	func(t *rapid.T) Flag { return Flag{"log-file", "var/proxy.log", "logging.file", "var/proxy.log"} },
	func(t *rapid.T) Flag {
		return Flag{"log-file-max-size", "500M", "logging.max_size", fmt.Sprint(int64(500 << 20))}
	},
	func(t *rapid.T) Flag { return Flag{"log-file-max-backups", "3", "logging.max_backups", "3"} },
	func(t *rapid.T) Flag { return Flag{"log-file-compress", "true", "logging.compress", "true"} },
	func(t *rapid.T) Flag { return Flag{"log-to-stdout", "false", "logging.to_stdout", "false"} },
}

type cliOut struct {
	AfterFlags   map[string]string   `json:"after_flags"`
	AfterUpdates []map[string]string `json:"after_updates"`
	UpdateErrors []string            `json:"update_errors"`
	File         string              `json:"file"`
	Reloaded     map[string]string   `json:"reloaded"`
	ReloadReset  bool                `json:"reload_reset"`
	Notified     [][]string          `json:"notified"`
	LoadError    string              `json:"load_error"`
}

func lookup(doc map[string]any, path string) (any, bool) {
	var cur any = doc
	for _, p := range strings.Split(path, ".") {
		m, ok := cur.(map[string]any)
		if !ok {
			return nil, false
		}
		cur, ok = m[p]
		if !ok {
			return nil, false
		}
	}
	return cur, true
}

var subCLI = ev.Register("cli-overrides",
	"a start-up sequence in a child process (load var/config.json, apply a generated set of command-line flags through OverrideFromFlags, then apply 0-3 generated API-style update documents, some addressing the overridden settings); oracle: the effective value of every overridden setting is the flag value before and after every update, and so is every value its listeners are told; the file never contains a flag value (it holds the base or updated value); reloading the file without flags yields the file values and they equal the non-overridden effective values; a file saved by an accepted update (also one giving an unusable value for an overridden setting) is loaded by the next start-up, not reset; an update that gives an overridden setting the flag's own value is saved like any other; non-trivial = an override is followed by an update of the same setting; distinct by (flag set, update documents)",
	func(c CLICase, o *ev.Obs) *ev.Failure {
		bin := filepath.Join(os.Getenv("VERIF_BIN_DIR"), "cfgcli")
		if _, err := os.Stat(bin); err != nil {
			o.Skip = true
			ev.Incomplete("cfgcli binary not built (%v)", err)
			return nil
		}
		dir, err := os.MkdirTemp("", "verif-c17cli-")
		if err != nil {
			return ev.Failf("cli.harness", "%v", err)
		}
		defer os.RemoveAll(dir)
		var args []string
		for _, f := range c.Flags {
			args = append(args, "-"+f.Name+"="+f.Value)
		}
		ub, _ := json.Marshal(c.Updates)
		cmd := exec.Command(bin, args...)
		cmd.Dir = dir
		cmd.Env = append(os.Environ(), "CFGCLI_UPDATES="+string(ub))
		outB, err := cmd.Output()
		if err != nil {
			return ev.Failf("cli.process-failed", "cfgcli %v: %v\n%s", args, err, clip(string(outB), 500))
		}
		var out cliOut
		if err := json.Unmarshal(outB, &out); err != nil {
			return ev.Failf("cli.harness", "bad output: %v", err)
		}
		overridden := map[string]Flag{}
		for _, f := range c.Flags {
			overridden[f.Path] = f
		}
		touchedOverridden := false
		for _, u := range c.Updates {
			for p := range overridden {
				if _, ok := lookup(u, p); ok {
					touchedOverridden = true
				}
			}
		}
		o.Classf("flags:%d", len(c.Flags))
		o.Classf("updates:%d", len(c.Updates))
		o.NonTrivial = touchedOverridden
		for p, f := range overridden {
			if got := out.AfterFlags[p]; got != f.Want {
				return ev.Failf("cli.override-not-effective", "flag -%s=%s: effective %s is %q", f.Name, f.Value, p, got)
			}
			for i, vec := range out.AfterUpdates {
				if got := vec[p]; got != f.Want {
					return ev.Failf("cli.override-lost-after-update", "flag -%s=%s: after update %d (%v, error %q) the effective %s is %q", f.Name, f.Value, i, c.Updates[i], out.UpdateErrors[i], p, got)
				}
			}
		}
		// the components run with what their listeners are told: for an overridden setting that is the flag's value,
		// whatever an update stores underneath
		for i, told := range out.Notified {
			for _, n := range told {
				path, val, _ := strings.Cut(n, "=")
				if f, ok := overridden[path]; ok && val != f.Want {
					return ev.Failf("cli.override-lost-for-listeners", "flag -%s=%s: while update %d (%v) was applied, the listeners of %s were told %q - the running components follow the file value instead of the flag", f.Name, f.Value, i, c.Updates[i], path, val)
				}
			}
		}
		// the file holds base/updated values, never flag values
		var fileDoc map[string]any
		if err := json.Unmarshal([]byte(out.File), &fileDoc); err != nil {
			return ev.Failf("cli.file-unreadable", "var/config.json is not JSON after the run: %v\n%s", err, clip(out.File, 300))
		}
		def := cfgkit.Vector(config.NewDefault())
		for p, f := range overridden {
			v, _ := lookup(fileDoc, p)
			fileVal := fmt.Sprint(v)
			expected := def[p]
			for i, u := range c.Updates {
				if uv, ok := lookup(u, p); ok && out.UpdateErrors[i] == "" {
					expected = fmt.Sprint(uv)
				}
			}
			if expected == def[p] && def[p] == f.Want {
				continue // the flag repeats what the file holds anyway: nothing to tell apart
			}
			if fileVal == f.Value && expected != f.Value && fileVal != expected {
				return ev.Failf("cli.override-persisted", "flag -%s=%s was written into var/config.json (%s = %v)", f.Name, f.Value, p, v)
			}
			if out.Reloaded != nil && out.Reloaded[p] == f.Want && def[p] != f.Want && expected != f.Value {
				return ev.Failf("cli.override-persisted", "after reloading the file without flags %s is still the flag value %q", p, f.Want)
			}
		}
		// an accepted update that gives an overridden setting exactly the value of its flag is still an update of the
		// stored value: the next start, without the flag, runs with it
		if out.Reloaded != nil && !out.ReloadReset {
			for p, f := range overridden {
				last := -1
				for i, u := range c.Updates {
					if _, ok := lookup(u, p); ok && out.UpdateErrors[i] == "" {
						last = i
					}
				}
				if last < 0 {
					continue
				}
				uv, _ := lookup(c.Updates[last], p)
				if fmt.Sprint(uv) == f.Value && out.Reloaded[p] != f.Want {
					return ev.Failf("cli.accepted-update-not-saved", "flag -%s=%s and an accepted update setting %s to that same value: after reloading the file without flags %s is %q, not %q", f.Name, f.Value, p, p, out.Reloaded[p], f.Want)
				}
			}
		}
		// whatever was accepted has been saved: the next start must be able to load that file. (A start-up that finds
		// the file unusable resets it to the defaults - every setting saved with it is gone.)
		if out.ReloadReset {
			acc := []string{}
			for i, e := range out.UpdateErrors {
				if e == "" {
					b, _ := json.Marshal(c.Updates[i])
					acc = append(acc, string(b))
				}
			}
			if len(acc) > 0 {
				return ev.Failf("cli.accepted-update-unloadable", "flags %v, accepted updates %v: the saved file was refused by the next start-up and reset to the defaults:\n%s", args, acc, clip(out.File, 400))
			}
		}
		// non-overridden settings: reload == last effective
		if n := len(out.AfterUpdates); n > 0 && out.Reloaded != nil {
			last := out.AfterUpdates[n-1]
			allOK := true
			for _, e := range out.UpdateErrors {
				if e != "" {
					allOK = false
				}
			}
			if allOK {
				for p, v := range last {
					if _, ov := overridden[p]; ov {
						continue
					}
					if out.Reloaded[p] != v {
						return ev.Failf("cli.reload-differs", "%s: effective %q, after reload %q", p, v, out.Reloaded[p])
					}
				}
			}
		}
		return nil
	})

// flagJSON is the flag's value in the type the setting has in an update document.
func flagJSON(f Flag) any {
	switch f.Value {
	case "true":
		return true
	case "false":
		return false
	}
	if n, err := strconv.Atoi(f.Value); err == nil && strings.HasSuffix(f.Path, "max_backups") {
		return n
	}
	return f.Value
}

func seenPath(fs []Flag, path string) (Flag, bool) {
	for _, f := range fs {
		if f.Path == path {
			return f, true
		}
	}
	return Flag{}, false
}

func TestCLIOverrides(t *testing.T) {
	subCLI.CheckSalt(t, 5, ev.N(120, 4000), func(t *rapid.T) CLICase {
		var c CLICase
		seen := map[string]bool{}
		for _, idx := range rapid.SliceOfNDistinct(rapid.IntRange(0, len(flagPool)-1), 1, 5, rapid.ID[int]).Draw(t, "flags") {
			f := flagPool[idx](t)
			if !seen[f.Name] {
				seen[f.Name] = true
				c.Flags = append(c.Flags, f)
			}
		}
		for i := rapid.IntRange(0, 3).Draw(t, "nupdates"); i > 0; i-- {
			d, _ := cfgkit.DrawDoc(t, false)
			// address one of the overridden settings on purpose
			if rapid.Bool().Draw(t, "hit") {
				f := c.Flags[rapid.IntRange(0, len(c.Flags)-1).Draw(t, "which")]
				cfgkit.Set(d, f.Path, cfgkit.Valid[f.Path](t))
				if rapid.IntRange(0, 2).Draw(t, "same-as-flag") == 0 {
					// the operator makes permanent what the flag says
					cfgkit.Set(d, f.Path, flagJSON(f))
				}
			}
			// an update that is refused as a whole (one unworkable setting among valid ones, refused only after the
			// valid ones were taken in) must leave the overrides standing as well
			if rapid.IntRange(0, 2).Draw(t, "poison") == 0 {
				bad := rapid.SampledFrom([][2]any{{"cache.lock_shards", 0}, {"cache.lock_shards", -3}, {"cache.memory.memory_budget_percent", 101}, {"cache.max_cache_size", "-1B"}, {"proxy.listen", ""}, {"cache.cleanup_interval", "0s"}}).Draw(t, "bad")
				if _, isFlag := seenPath(c.Flags, bad[0].(string)); !isFlag {
					cfgkit.Set(d, bad[0].(string), bad[1])
				}
			}
			// a value that would be refused on its own, given for a setting the command line overrides: the running
			// process does not use it, but it is what would be saved and loaded next time
			if rapid.IntRange(0, 3).Draw(t, "hidden-poison") == 0 {
				bad := rapid.SampledFrom([][2]any{{"proxy.listen", ""}, {"proxy.ca_cert", ""}, {"cache.file.dir", ""}, {"webserver.listen", ""}}).Draw(t, "hidden-bad")
				if _, isFlag := seenPath(c.Flags, bad[0].(string)); isFlag {
					cfgkit.Set(d, bad[0].(string), bad[1])
				}
			}
			if len(d) > 0 {
				c.Updates = append(c.Updates, d)
			}
		}
		return c
	})
}
