package c07

import (
	"fmt"
	"net/http"
	"os"
	"strings"
	"testing"

	"pgregory.net/rapid"
	"reservoir/proxy/headers"

	"verifharness/internal/ev"
	"verifharness/internal/ref"
)

func TestMain(m *testing.M) { ev.Main(m, "C07") }

// RangeCase is one Range header value against one representation size.
type RangeCase struct {
	Value string `json:"value"`
	Size  int64  `json:"size"`
}

// the 17 strings of the repository's own table test (proxy/headers/headers_test.go)
var suiteStrings = map[string]bool{
	"bytes=0-0": true, "bytes=0-499": true, "bytes=500-": true, "bytes=-500": true, "bytes=999-999": true,
	"bytes= 999 - 999 ": true, "items=0-10": true, "bytes0-10": true, "bytes=a-b": true, "bytes=10-x": true,
	"bytes=-1-10": true, "bytes=0-10,20-30": true, "bytes=10-5": true, "bytes=1000-1000": true,
	"bytes=0-1000": true, "bytes=-2000": true,
}

// parseAndSlice runs the code under test: header parsing as the proxy does it for a
// client request, then slicing against the stored size. Panics are observed, not hidden.
func parseAndSlice(c RangeCase) (out ref.RangeOutcome, panicked any) {
	defer func() {
		if r := recover(); r != nil {
			panicked = r
		}
	}()
	hd := headers.ParseHeaderDirective(http.Header{"Range": {c.Value}})
	if !hd.Range.IsPresent() {
		return ref.RangeOutcome{Refused: true}, nil
	}
	s, e, err := hd.Range.Value().SliceSize(c.Size)
	if err != nil {
		return ref.RangeOutcome{Refused: true}, nil
	}
	return ref.RangeOutcome{Start: s, End: e}, nil
}

var subUnit = ev.Register("range-unit",
	"Range value x representation size through headers.ParseHeaderDirective + SliceSize, compared with an RFC 9110 big-integer reference (exact / clamp-or-refuse / refuse / lenient / any-in-bounds); non-trivial = value is not one of the 17 strings of the repository's table test; distinct by (value,size)",
	func(c RangeCase, o *ev.Obs) *ev.Failure {
		v := ref.Range(c.Value, c.Size)
		o.Class("verdict:" + string(v.Kind))
		o.Class("shape:" + v.Shape)
		o.Classf("size:%s", sizeClass(c.Size))
		o.NonTrivial = !suiteStrings[c.Value]
		out, p := parseAndSlice(c)
		if p != nil {
			return ev.Failf("range.parse.panic:"+panicShape(c.Value), "Range %q size %d: panic: %v", c.Value, c.Size, p)
		}
		if why := ref.CheckRange(v, out, c.Size); why != "" {
			return ev.Failf("range."+why+":"+v.Shape, "Range %q size %d: reference says %s [%d,%d], code gave refused=%v [%d,%d]",
				c.Value, c.Size, v.Kind, v.Start, v.End, out.Refused, out.Start, out.End)
		}
		return nil
	})

func sizeClass(n int64) string {
	switch {
	case n == 0:
		return "0"
	case n == 1:
		return "1"
	case n < 100:
		return "small"
	default:
		return "large"
	}
}

func panicShape(v string) string {
	rest := strings.TrimPrefix(v, "bytes=")
	switch {
	case rest == "":
		return "empty-range-set"
	case !strings.Contains(rest, "-"):
		return "missing-dash"
	default:
		return "other"
	}
}

func TestReplay(t *testing.T) { ev.ReplayWitnesses(t) }

func TestRangeUnitExhaustive(t *testing.T) {
	maxLen := 5
	if ev.Thorough() {
		maxLen = 6
	}
	alphabet := []byte{'0', '1', '5', '9', '-', ',', ' ', 'x'}
	sizes := []int64{0, 1, 2, 10, 100}
	subUnit.Enumerate(t, true, func(yield func(RangeCase) bool) {
		buf := make([]byte, 0, maxLen)
		var rec func(depth int) bool
		idx := 0
		rec = func(depth int) bool {
			idx++
			if idx%ev.NShards == ev.Shard {
				for _, sz := range sizes {
					if !yield(RangeCase{Value: "bytes=" + string(buf), Size: sz}) {
						return false
					}
				}
			}
			if depth == maxLen {
				return true
			}
			for _, ch := range alphabet {
				buf = append(buf, ch)
				if !rec(depth + 1) {
					return false
				}
				buf = buf[:len(buf)-1]
			}
			return true
		}
		rec(0)
	})
	ev.Note("range-unit exhaustive: every string \"bytes=\"+w, |w| <= %d over {0,1,5,9,-,comma,space,x} x sizes {0,1,2,10,100}", maxLen)
}

var bigNums = []string{
	"0", "1", "2", "9", "10", "99", "100", "101", "2147483647", "2147483648", "4294967296",
	"9223372036854775806", "9223372036854775807", "9223372036854775808", "18446744073709551615",
	"18446744073709551616", "18446744073709551617", "36893488147419103232", "99999999999999999999999",
	"00000000000000000000000000007", "007",
}

func drawNum(t *rapid.T, size int64, label string) string {
	switch rapid.IntRange(0, 5).Draw(t, label+"-kind") {
	case 0:
		return rapid.SampledFrom(bigNums).Draw(t, label)
	case 1:
		d := rapid.Int64Range(-2, 2).Draw(t, label+"-d")
		n := size + d
		if n < 0 {
			n = 0
		}
		return fmt.Sprint(n)
	case 2:
		return fmt.Sprint(rapid.Int64Range(0, size+1).Draw(t, label))
	default:
		return fmt.Sprint(rapid.Int64Range(0, 120).Draw(t, label))
	}
}

func drawSpec(t *rapid.T, size int64, label string) string {
	switch rapid.IntRange(0, 3).Draw(t, label+"-form") {
	case 0:
		return drawNum(t, size, label+"a") + "-"
	case 1:
		return "-" + drawNum(t, size, label+"n")
	default:
		return drawNum(t, size, label+"a") + "-" + drawNum(t, size, label+"b")
	}
}

func drawRangeCase(t *rapid.T) RangeCase {
	size := rapid.SampledFrom([]int64{0, 1, 2, 10, 100, 1000, 70000, 1 << 31, 1<<62 + 5}).Draw(t, "size")
	if rapid.IntRange(0, 3).Draw(t, "rsize") == 0 {
		size = rapid.Int64Range(0, 300).Draw(t, "size2")
	}
	n := rapid.SampledFrom([]int{1, 1, 1, 1, 2, 3}).Draw(t, "nspecs")
	var specs []string
	for i := 0; i < n; i++ {
		specs = append(specs, drawSpec(t, size, fmt.Sprintf("s%d", i)))
	}
	sep := rapid.SampledFrom([]string{",", ", ", " ,", ",,", " , "}).Draw(t, "sep")
	v := rapid.SampledFrom([]string{"bytes=", "bytes=", "bytes=", "bytes=", "Bytes=", "BYTES=", "bytes =", "bytes", "items=", "=", ""}).Draw(t, "unit") + strings.Join(specs, sep)
	// mutations
	for i := rapid.SampledFrom([]int{0, 0, 0, 1, 1, 2}).Draw(t, "nmut"); i > 0; i-- {
		switch rapid.IntRange(0, 6).Draw(t, "mut") {
		case 0: // truncate
			if len(v) > 0 {
				v = v[:rapid.IntRange(0, len(v)-1).Draw(t, "cut")]
			}
		case 1: // duplicate a dash
			v = strings.Replace(v, "-", "--", 1)
		case 2: // insert a character
			p := rapid.IntRange(0, len(v)).Draw(t, "pos")
			ch := rapid.SampledFrom([]string{" ", "\t", "x", "-", ",", "=", "+", "0", ".", "e"}).Draw(t, "ch")
			v = v[:p] + ch + v[p:]
		case 3: // trailing junk
			v += rapid.SampledFrom([]string{" ", ",", "-", "x", ";q=1", "/100", "\t"}).Draw(t, "tail")
		case 4: // delete a character
			if len(v) > 0 {
				p := rapid.IntRange(0, len(v)-1).Draw(t, "del")
				v = v[:p] + v[p+1:]
			}
		case 5:
			v = strings.Replace(v, "=", "= ", 1)
		case 6:
			v = strings.ToUpper(v)
		}
	}
	return RangeCase{Value: v, Size: size}
}

func TestRangeUnitRandom(t *testing.T) {
	subUnit.CheckSalt(t, 1, ev.N(50000, 4000000), drawRangeCase)
}

// FuzzRange is the coverage-guided byte-level search (thorough tier only).
func FuzzRange(f *testing.F) {
	for s := range suiteStrings {
		f.Add(s, int64(1000))
	}
	for _, s := range []string{"bytes=", "bytes=5", "bytes=-", "bytes=18446744073709551616-", "bytes=0-18446744073709551617", "bytes=1 2-30", "bytes=-0", "bytes=0-0,"} {
		f.Add(s, int64(10))
	}
	f.Fuzz(func(t *testing.T, value string, size int64) {
		if size < 0 {
			size = -size
		}
		if size < 0 {
			size = 0
		}
		if fl := subUnit.Once(RangeCase{Value: value, Size: size}); fl != nil {
			ev.Flush()
			t.Fatalf("%s: %s", fl.Sig, fl.What)
		}
	})
	if os.Getenv("VERIF_FUZZING") != "" {
		ev.Flush()
	}
}
