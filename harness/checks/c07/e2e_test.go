package c07

import (
	"bytes"
	"fmt"
	"regexp"
	"strconv"
	"strings"
	"testing"

	"pgregory.net/rapid"

	"verifharness/internal/ev"
	"verifharness/internal/origin"
	"verifharness/internal/px"
	"verifharness/internal/ref"
)

// E2ECase is one Range request through a real proxy.
type E2ECase struct {
	Backend      string `json:"backend"`
	Transport    string `json:"transport"`
	Size         int    `json:"size"`
	Range        string `json:"range"`
	HonorRange   bool   `json:"honor_range"`
	Prime        bool   `json:"prime"`
	RetryInvalid bool   `json:"retry_invalid"`
	Retry416     bool   `json:"retry_416"`
	IfRange      string `json:"if_range"`
	Chunked      bool   `json:"chunked"`
	// Twin: a second client asks for another slice of the same (not yet stored) resource at the same moment;
	// Range requests are not coalesced, so two fetches of one resource overlap (the origin takes 40 ms per body)
	Twin bool `json:"twin,omitempty"`
	// NoLastMod: the origin sends an ETag but no Last-Modified: there is no stored date an If-Range date could match
	NoLastMod bool `json:"no_last_modified,omitempty"`
}

const (
	etagV1    = `"v1"`
	lastModV1 = "Mon, 02 Jan 2006 15:04:05 GMT"
)

var ifRangeValues = map[string]string{
	"":               "",
	"match-etag":     etagV1,
	"other-etag":     `"v0"`,
	"weak-etag":      `W/"v1"`,
	"match-date":     lastModV1,
	"earlier-date":   "Sun, 01 Jan 2006 15:04:05 GMT",
	"second-earlier": "Mon, 02 Jan 2006 15:04:04 GMT", // the resolution of an HTTP-date: the nearest miss
	"later-date":     "Tue, 03 Jan 2006 15:04:05 GMT",
	"garbage":        "yesterday-ish",
}

var reCR = regexp.MustCompile(`^bytes (\d+)-(\d+)/(\d+)$`)

var subE2E = ev.Register("range-e2e",
	"one Range (+If-Range) request through a real proxy (backend x transport x retry flags) for a resource the origin serves whole (proxy slices) or by range (relay); oracle: status in {206,416,200}, 206 in-bounds with exact bytes and equal to the RFC reference, 416 states the size, 200 is the complete body, If-Range mismatch gives the full 200, a response is always received; non-trivial = proxy had to slice or refuse itself (origin ignores Range) and the string is not in the repository's table; distinct by (range,size,flags,if-range)",
	func(c E2ECase, o *ev.Obs) *ev.Failure {
		site := origin.NewSite()
		v1 := origin.Version{Ver: 1, Len: c.Size, ETag: etagV1, LastMod: lastModV1, HonorRange: c.HonorRange, Chunked: c.Chunked,
			Headers: []origin.HV{{K: "Cache-Control", V: "max-age=3600"}}}
		if c.NoLastMod {
			v1.LastMod = ""
		}
		twin := c.Twin && !c.Prime && c.Size >= 2 && !c.Chunked
		if twin {
			v1.SlowMs = 40
		}
		site.Set("/r", "r", v1)
		org := origin.New(site.Handler())
		defer org.Close()
		env := px.New(px.Opts{Backend: c.Backend, RetryInvalid: c.RetryInvalid, Retry416: c.Retry416})
		defer env.Close()
		full := origin.BodyOf("r", v1)
		size := int64(len(full))

		if c.Prime {
			resp, err := env.Via(c.Transport, px.Req{Method: "GET", Host: org.Addr(), Target: "/r", ReqID: "prime"})
			if err != nil || resp.Status != 200 || !bytes.Equal(resp.Body, full) {
				if size == 0 && c.Backend == "file" {
					// empty cacheable body on the file backend: C09's business, not this check's
					o.Skip = true
					return nil
				}
				return ev.Failf("range-e2e.prime-failed", "priming GET failed: err=%v resp=%v", err, brief(resp))
			}
		}
		req := px.Req{Method: "GET", Host: org.Addr(), Target: "/r", ReqID: "range", Headers: []px.H{{K: "Range", V: c.Range}}}
		if iv := ifRangeValues[c.IfRange]; iv != "" {
			req.Headers = append(req.Headers, px.H{K: "If-Range", V: iv})
		}
		var tresp *px.Resp
		var terr error
		tdone := make(chan struct{})
		if twin {
			go func() {
				defer close(tdone)
				tresp, terr = env.Via(c.Transport, px.Req{Method: "GET", Host: org.Addr(), Target: "/r", ReqID: "twin", Headers: []px.H{{K: "Range", V: "bytes=1-1"}}})
			}()
		} else {
			close(tdone)
		}
		resp, err := env.Via(c.Transport, req)
		<-tdone
		o.Classf("twin:%v", twin)
		if twin {
			switch {
			case terr != nil || tresp.ReadErr != nil:
				return ev.Failf("range-e2e.no-response:twin", "a concurrent Range bytes=1-1 request for the same resource: %v / %s", terr, brief(tresp))
			case tresp.Status == 206 && (!bytes.Equal(tresp.Body, full[1:2]) || tresp.Header.Get("Content-Range") != fmt.Sprintf("bytes 1-1/%d", size)):
				return ev.Failf("range-e2e.206-wrong-bytes:twin", "two overlapping Range requests for one resource: the bytes=1-1 request got Content-Range %q and body %q, the representation has %q there", tresp.Header.Get("Content-Range"), tresp.Body, full[1:2])
			case tresp.Status == 200 && !bytes.Equal(tresp.Body, full):
				return ev.Failf("range-e2e.200-incomplete:twin", "two overlapping Range requests for one resource: the bytes=1-1 request got a 200 with %d of %d bytes", len(tresp.Body), size)
			case tresp.Status != 200 && tresp.Status != 206:
				return ev.Failf(fmt.Sprintf("range-e2e.status-%d:twin", tresp.Status), "a concurrent satisfiable Range request got %s", brief(tresp))
			}
		}

		v := ref.Range(c.Range, size)
		o.Class("verdict:" + string(v.Kind))
		o.Class("ifrange:" + c.IfRange)
		o.Classf("origin-honors-range:%v", c.HonorRange)
		o.Class("transport:" + c.Transport)
		o.Class("backend:" + c.Backend)
		o.NonTrivial = !c.HonorRange && !suiteStrings[c.Range]
		o.Canon = fmt.Sprintf("%q|%d|%v|%v|%v|%s|%s|%s|%v", c.Range, c.Size, c.HonorRange, c.RetryInvalid, c.Retry416, c.IfRange, c.Backend, c.Transport, c.Prime)

		if p := env.Panics(); p != "" {
			return ev.Failf("range-e2e.handler-panic", "Range %q: proxy handler panicked: %s", c.Range, p)
		}
		if err != nil {
			return ev.Failf("range-e2e.no-response", "Range %q: no response: %v", c.Range, err)
		}
		if resp.ReadErr != nil {
			return ev.Failf("range-e2e.bad-framing", "Range %q: status %d, body read error %v after %d bytes", c.Range, resp.Status, resp.ReadErr, len(resp.Body))
		}
		o.Classf("status:%d", resp.Status)
		mismatch := c.IfRange == "other-etag" || c.IfRange == "weak-etag" || c.IfRange == "earlier-date" || c.IfRange == "second-earlier" || c.IfRange == "garbage"
		either := c.IfRange == "later-date"
		if c.NoLastMod && strings.HasSuffix(c.IfRange, "-date") || c.NoLastMod && c.IfRange == "second-earlier" {
			mismatch, either = true, false // whatever the proxy keeps as a date of its own, the origin never sent one
		}
		switch resp.Status {
		case 206:
			m := reCR.FindStringSubmatch(resp.Header.Get("Content-Range"))
			if m == nil {
				return ev.Failf("range-e2e.206-bad-content-range", "Range %q: 206 with Content-Range %q", c.Range, resp.Header.Get("Content-Range"))
			}
			a, _ := strconv.ParseInt(m[1], 10, 64)
			b, _ := strconv.ParseInt(m[2], 10, 64)
			total, _ := strconv.ParseInt(m[3], 10, 64)
			if total != size || a < 0 || b < a || b >= size {
				return ev.Failf("range-e2e.206-out-of-bounds", "Range %q size %d: Content-Range %q", c.Range, size, m[0])
			}
			if cl := resp.Header.Get("Content-Length"); cl != strconv.FormatInt(b-a+1, 10) || int64(len(resp.Body)) != b-a+1 {
				return ev.Failf("range-e2e.206-length", "Range %q: Content-Range %q but Content-Length %q and %d body bytes", c.Range, m[0], cl, len(resp.Body))
			}
			if !bytes.Equal(resp.Body, full[a:b+1]) {
				return ev.Failf("range-e2e.206-wrong-bytes", "Range %q: body is not bytes %d-%d of the representation", c.Range, a, b)
			}
			if mismatch {
				return ev.Failf("range-e2e.if-range-mismatch-served-slice:"+c.IfRange, "Range %q If-Range %q (stored validator differs): got 206 %s instead of the full 200", c.Range, ifRangeValues[c.IfRange], m[0])
			}
			if why := ref.CheckRange(v, ref.RangeOutcome{Start: a, End: b}, size); why != "" {
				return ev.Failf("range-e2e."+why+":"+v.Shape, "Range %q size %d: reference %s [%d,%d], proxy served %s", c.Range, size, v.Kind, v.Start, v.End, m[0])
			}
		case 416:
			if cr := resp.Header.Get("Content-Range"); cr != fmt.Sprintf("bytes */%d", size) {
				return ev.Failf("range-e2e.416-without-size", "Range %q: 416 with Content-Range %q, want bytes */%d", c.Range, cr, size)
			}
			if mismatch {
				return ev.Failf("range-e2e.if-range-mismatch-416:"+c.IfRange, "Range %q If-Range %q does not match the stored validator: got 416 instead of the full 200", c.Range, ifRangeValues[c.IfRange])
			}
			if v.Kind == ref.RangeExact && !either {
				return ev.Failf("range-e2e.satisfiable-range-refused:"+v.Shape, "Range %q size %d is satisfiable [%d,%d] but got 416", c.Range, size, v.Start, v.End)
			}
		case 200:
			if !bytes.Equal(resp.Body, full) {
				return ev.Failf("range-e2e.200-incomplete", "Range %q: 200 with %d body bytes, representation has %d", c.Range, len(resp.Body), size)
			}
			if v.Kind == ref.RangeExact && !mismatch && !either {
				return ev.Failf("range-e2e.satisfiable-range-ignored:"+v.Shape, "Range %q size %d is a well-formed satisfiable single range [%d,%d] but the full 200 was sent", c.Range, size, v.Start, v.End)
			}
		default:
			return ev.Failf(fmt.Sprintf("range-e2e.status-%d", resp.Status), "Range %q If-Range %q: unexpected status %d (origin answered every request successfully): %s", c.Range, ifRangeValues[c.IfRange], resp.Status, brief(resp))
		}
		// the stored representation must be untouched by the Range exchange
		after, aerr := env.Via(c.Transport, px.Req{Method: "GET", Host: org.Addr(), Target: "/r", ReqID: "after"})
		if aerr != nil || after.ReadErr != nil || after.Status != 200 || !bytes.Equal(after.Body, full) || after.Header.Get("Content-Range") != "" {
			return ev.Failf("range-e2e.plain-get-after-range-damaged", "Range %q: the plain GET that followed got %s (err %v)", c.Range, brief(after), aerr)
		}
		return nil
	})

func brief(r *px.Resp) string {
	if r == nil {
		return "<nil>"
	}
	b := r.Body
	if len(b) > 80 {
		b = b[:80]
	}
	return fmt.Sprintf("status=%d cl=%d chunked=%v body[%d]=%q hdr=%v", r.Status, r.CL, r.Chunked, len(r.Body), b, r.Header)
}

func drawE2E(t *rapid.T) E2ECase {
	size := rapid.SampledFrom([]int{1, 2, 10, 100, 1000, 70000}).Draw(t, "size")
	c := E2ECase{
		Backend:      rapid.SampledFrom([]string{"memory", "file"}).Draw(t, "backend"),
		Transport:    rapid.SampledFrom([]string{"plain", "plain", "tunnel"}).Draw(t, "transport"),
		Size:         size,
		HonorRange:   rapid.IntRange(0, 3).Draw(t, "honor") == 0,
		Prime:        rapid.IntRange(0, 3).Draw(t, "prime") != 0,
		RetryInvalid: rapid.Bool().Draw(t, "retry_invalid"),
		Retry416:     rapid.Bool().Draw(t, "retry_416"),
		NoLastMod:    rapid.IntRange(0, 4).Draw(t, "no-last-mod") == 0,
		IfRange:      rapid.SampledFrom([]string{"", "", "", "match-etag", "other-etag", "weak-etag", "match-date", "earlier-date", "second-earlier", "later-date", "garbage"}).Draw(t, "ifrange"),
		Chunked:      rapid.IntRange(0, 4).Draw(t, "chunked") == 0,
	}
	if !c.Prime && rapid.Bool().Draw(t, "twin") {
		c.Twin = true
	}
	switch rapid.IntRange(0, 3).Draw(t, "simple") {
	case 0, 1: // satisfiable by construction
		a := rapid.IntRange(0, size-1).Draw(t, "a")
		switch rapid.IntRange(0, 2).Draw(t, "form") {
		case 0:
			c.Range = fmt.Sprintf("bytes=%d-%d", a, rapid.IntRange(a, size-1).Draw(t, "b"))
		case 1:
			c.Range = fmt.Sprintf("bytes=%d-", a)
		default:
			c.Range = fmt.Sprintf("bytes=-%d", rapid.IntRange(1, size).Draw(t, "n"))
		}
	case 2:
		c.Range = "bytes=" + drawSpec(t, int64(size), "spec")
	default:
		rc := drawRangeCase(t)
		c.Range = rc.Value
	}
	// header values cannot carry CR/LF/NUL on the wire
	for _, ch := range c.Range {
		if ch < 0x20 && ch != '\t' || ch == 0x7f {
			c.Range = "bytes=0-0"
		}
	}
	return c
}

func TestRangeE2E(t *testing.T) {
	subE2E.CheckSalt(t, 2, ev.N(1500, 60000), drawE2E)
}
