package c14

// Sweep storm: the expiry sweep re-examines every expired entry under locks (scan under the map lock,
// re-check and removal under the key lock) while writers take the same locks in the other order or
// exclusively. The general workload check meets such an overlap only now and then; this one makes the
// sweep long (hundreds of expired entries per cycle) and the writers dense, so that a lock taken twice
// or in the wrong order inside the sweep has thousands of chances per case.

import (
	"runtime"
	"sync"
	"sync/atomic"
	"testing"
	"time"

	"pgregory.net/rapid"
	"reservoir/cache"

	"verifharness/internal/cachekit"
	"verifharness/internal/ev"
)

type Storm struct {
	Backend string `json:"backend"`
	Shards  int    `json:"shards"`
	Expired int    `json:"expired"` // expired entries present at the start of every sweep
	Writers int    `json:"writers"`
	Rounds  int    `json:"rounds"`
	Procs   int    `json:"gomaxprocs"`
	Mix     string `json:"mix"` // delete | store | update | all : what the writers do
	Shared  bool   `json:"shared"`
}

var subStorm = ev.Register("sweep-storm",
	"rounds of: store 50-400 already expired entries, then run one cleanup cycle (hook H3) while 2-12 writer goroutines hammer delete / store / metadata update / get-metadata on other keys or on the very keys being swept (memory/file, 1/3/64 shards, GOMAXPROCS 1-16); oracle: the sweeps and the writers keep making progress - no 10 s window without a completed operation; on a stall the goroutine dump must show a reservoir/cache frame parked on a lock (violation), otherwise inconclusive; afterwards every expired entry is gone; non-trivial = sweeps removed entries while writers completed operations; distinct by (backend, shards, sizes, mix)",
	func(c Storm, o *ev.Obs) *ev.Failure {
		if c.Procs > 0 {
			defer runtime.GOMAXPROCS(runtime.GOMAXPROCS(c.Procs))
		}
		k := cachekit.New(cachekit.Opts{Backend: c.Backend, Shards: c.Shards, MaxSize: 1 << 30, Cleanup: time.Hour})
		var ops, sweeps atomic.Int64
		stop := make(chan struct{})
		var wg sync.WaitGroup
		for w := 0; w < c.Writers; w++ {
			wg.Add(1)
			go func(w int) {
				defer wg.Done()
				for i := 0; ; i++ {
					select {
					case <-stop:
						return
					default:
					}
					key := 100000 + w*64 + i%64
					if c.Shared {
						key = i % c.Expired
					}
					kind := c.Mix
					if kind == "all" {
						kind = []string{"delete", "store", "update", "meta"}[(i+w)%4]
					}
					switch kind {
					case "delete":
						k.C.Delete(cachekit.Key(key))
					case "store":
						if e, err := k.Store(key, i, 16, time.Now().Add(-time.Millisecond), -1); err == nil {
							e.Data.Close()
						}
					case "update":
						k.C.UpdateMetadata(cachekit.Key(key), func(m *cache.EntryMetadata[cachekit.Meta]) { m.Expires = time.Now().Add(-time.Millisecond) })
					case "meta":
						k.C.GetMetadata(cachekit.Key(key))
					}
					ops.Add(1)
				}
			}(w)
		}
		done := make(chan struct{})
		go func() {
			defer close(done)
			for r := 0; r < c.Rounds; r++ {
				for i := 0; i < c.Expired; i++ {
					if e, err := k.Store(i, r, 16, time.Now().Add(-time.Millisecond), -1); err == nil {
						e.Data.Close()
					}
				}
				k.C.VerifRunCleanupCycle()
				sweeps.Add(1)
			}
		}()
		// progress watchdog
		lastOps, lastSweeps, lastMove := int64(-1), int64(-1), time.Now()
		stalled := false
	watch:
		for {
			select {
			case <-done:
				break watch
			case <-time.After(50 * time.Millisecond):
			}
			if a, b := ops.Load(), sweeps.Load(); a != lastOps || b != lastSweeps {
				lastOps, lastSweeps, lastMove = a, b, time.Now()
			} else if time.Since(lastMove) > 10*time.Second {
				stalled = true
				break watch
			}
		}
		if stalled {
			dump := allStacks()
			if ok, g := parked(dump); ok {
				return ev.Failf("deadlock:sweep-storm", "%s backend, %d shards, %d expired entries per sweep, %d writers (%s, shared keys %v): no operation completed for 10 s after %d sweeps and %d writer operations; a cache goroutine is parked:\n%s", c.Backend, c.Shards, c.Expired, c.Writers, c.Mix, c.Shared, sweeps.Load(), ops.Load(), clip(g, 1800))
			}
			ev.Incomplete("sweep-storm stalled without a parked reservoir frame (inconclusive): %s/%d shards", c.Backend, c.Shards)
			o.Skip = true
			return nil
		}
		close(stop)
		wg.Wait()
		o.Class("backend:" + c.Backend)
		o.Classf("shards:%d", c.Shards)
		o.Class("mix:" + c.Mix)
		o.Classf("shared-keys:%v", c.Shared)
		o.NonTrivial = ops.Load() > 0 && sweeps.Load() > 0
		// quiescent now: one more cycle must leave no expired entry behind
		k.C.VerifRunCleanupCycle()
		left := 0
		for i := 0; i < c.Expired; i++ {
			if m, _, err := k.C.GetMetadata(cachekit.Key(i)); err == nil && m != nil && m.Expires.Before(time.Now()) {
				left++
			}
		}
		k.Close()
		if left > 0 {
			return ev.Failf("storm.expired-left", "%s backend: %d expired entries survive a cleanup cycle run at rest after the storm", c.Backend, left)
		}
		return nil
	})

func drawStorm(t *rapid.T) Storm {
	return Storm{
		Backend: rapid.SampledFrom([]string{"memory", "memory", "file"}).Draw(t, "backend"),
		Shards:  rapid.SampledFrom([]int{1, 3, 64}).Draw(t, "shards"),
		Expired: rapid.SampledFrom([]int{50, 200, 400}).Draw(t, "expired"),
		Writers: rapid.IntRange(2, 12).Draw(t, "writers"),
		Rounds:  rapid.IntRange(3, 12).Draw(t, "rounds"),
		Procs:   rapid.SampledFrom([]int{0, 0, 2, 4, 16}).Draw(t, "procs"),
		Mix:     rapid.SampledFrom([]string{"delete", "store", "update", "all", "all"}).Draw(t, "mix"),
		Shared:  rapid.Bool().Draw(t, "shared"),
	}
}

func TestSweepStorm(t *testing.T) {
	subStorm.CheckSalt(t, 5, ev.N(30, 1500), drawStorm)
}
