package c14

import (
	"flag"
	"fmt"
	"runtime"
	"strconv"
	"strings"
	"sync"
	"sync/atomic"
	"testing"
	"time"

	"pgregory.net/rapid"
	"reservoir/cache"
	"reservoir/config"
	"reservoir/metrics"
	"reservoir/utils/verifhook"

	"verifharness/internal/cachekit"
	"verifharness/internal/ev"
)

func TestMain(m *testing.M)   { ev.Main(m, "C14") }
func TestReplay(t *testing.T) { ev.ReplayWitnesses(t) }

type Op struct {
	Kind   string `json:"kind"` // store | get | delete | update | meta
	Key    int    `json:"key"`
	Size   int    `json:"size,omitempty"`
	LifeMs int    `json:"life_ms,omitempty"` // store / update: lifetime from now (negative = already expired); 0 = one hour
}

type Change struct {
	Setting string `json:"setting"` // max_cache_size | cleanup_interval | memory_budget_percent
	Value   string `json:"value"`
	AfterUs int    `json:"after_us"`
}

type Workload struct {
	Backend    string   `json:"backend"`
	Shards     int      `json:"shards"`
	LimitBytes int64    `json:"limit_bytes"`
	JanitorMs  int      `json:"janitor_ms"`
	Procs      int      `json:"gomaxprocs"`
	Plans      [][]Op   `json:"plans"`
	Changes    []Change `json:"changes"`
	YieldUs    int      `json:"yield_us"` // perturbation at the hook points
	// StallAtStop: when the cache is stopped a store is in flight whose source has delivered part of its body and
	// then stalls (an upstream that stopped sending); it holds its key's shard lock. Stopping must not wait for it.
	StallAtStop bool `json:"stall_at_stop,omitempty"`
	EarlyStop   bool `json:"early_stop"` // Destroy() is issued while run-time changes are still being applied (shutdown during an update)
}

const watchdog = 30 * time.Second

// parked reports whether the goroutine dump shows a reservoir frame waiting on a lock or channel.
func parked(dump string) (bool, string) {
	for _, g := range strings.Split(dump, "\n\n") {
		head := strings.SplitN(g, "\n", 2)[0]
		waiting := strings.Contains(head, "sync.Mutex.Lock") || strings.Contains(head, "sync.RWMutex") || strings.Contains(head, "semacquire") ||
			strings.Contains(head, "chan send") || strings.Contains(head, "chan receive") || strings.Contains(head, "select")
		if !waiting || !strings.Contains(g, "reservoir/cache") {
			continue
		}
		// the janitor's own loop waiting for its next tick is not a parked operation
		if lines := strings.Split(g, "\n"); strings.Contains(head, "[select") && len(lines) > 1 && strings.Contains(lines[1], "cacheJanitor") && strings.Contains(lines[1], ".start.func") {
			continue
		}
		return true, g
	}
	return false, ""
}

func allStacks() string {
	buf := make([]byte, 1<<20)
	for {
		n := runtime.Stack(buf, true)
		if n < len(buf) {
			return string(buf[:n])
		}
		buf = make([]byte, 2*len(buf))
	}
}

// janitors returns the stacks of the goroutines running a cache janitor's loop ("" if none).
func janitors(dump string) string {
	var out []string
	for _, g := range strings.Split(dump, "\n\n") {
		if strings.Contains(g, "reservoir/cache.(*cacheJanitor[") && strings.Contains(g, ".start.func1") {
			out = append(out, g)
		}
	}
	return strings.Join(out, "\n\n")
}

var subWL = ev.Register("cache-workloads",
	"4-32 goroutines run pre-drawn plans of store/get/delete/update-metadata/get-metadata on colliding and distinct keys against one cache (memory/file, shards 1/2/3/64, a limit of 2-3 bodies so stores evict from inside Cache(), janitor at 1 ms) while another goroutine applies run-time max_cache_size / cleanup_interval / memory_budget_percent changes; hook points are used as yield/perturbation points; then Destroy() and a second Destroy(); oracle: after the changes periodic cleanup cycles keep completing (two more within 12 s; every interval set is <= 10 ms), after Destroy the janitor goroutine is gone within 5 s, and everything returns within a 30 s watchdog; on expiry the goroutine dump must show a reservoir/cache frame parked on a lock or channel (violation, the dump is the replay artefact), otherwise the run is inconclusive; non-trivial = at least one store-triggered eviction and one janitor cycle overlapped the workload; distinct by (backend, shards, plan hash)",
	func(w Workload, o *ev.Obs) *ev.Failure {
		if w.Procs > 0 {
			defer runtime.GOMAXPROCS(runtime.GOMAXPROCS(w.Procs))
		}
		k := cachekit.New(cachekit.Opts{Backend: w.Backend, Shards: w.Shards, MaxSize: w.LimitBytes, Cleanup: time.Duration(w.JanitorMs) * time.Millisecond})
		if w.YieldUs > 0 {
			verifhook.Set(func(string, ...string) {
				runtime.Gosched()
				time.Sleep(time.Duration(w.YieldUs) * time.Microsecond)
			})
			defer verifhook.Set(nil)
		}
		life := func(ms int) time.Time {
			if ms == 0 {
				return time.Now().Add(time.Hour)
			}
			return time.Now().Add(time.Duration(ms) * time.Millisecond)
		}
		var phase atomic.Value
		var noCycles atomic.Bool
		phase.Store("operations")
		done := make(chan struct{})
		go func() {
			defer close(done)
			var wg sync.WaitGroup
			var ver atomic.Int64
			for _, plan := range w.Plans {
				wg.Add(1)
				go func(plan []Op) {
					defer wg.Done()
					for _, op := range plan {
						switch op.Kind {
						case "store":
							if e, err := k.Store(op.Key, int(ver.Add(1)), op.Size, life(op.LifeMs), -1); err == nil {
								e.Data.Close()
							}
						case "get":
							if e, err := k.C.Get(cachekit.Key(op.Key)); err == nil {
								e.Data.Close()
							}
						case "delete":
							k.C.Delete(cachekit.Key(op.Key))
						case "update":
							exp := life(op.LifeMs)
							k.C.UpdateMetadata(cachekit.Key(op.Key), func(m *cache.EntryMetadata[cachekit.Meta]) { m.Expires = exp })
						case "meta":
							k.C.GetMetadata(cachekit.Key(op.Key))
						}
					}
				}(plan)
			}
			var cwg sync.WaitGroup
			cwg.Add(1)
			if !w.EarlyStop {
				wg.Add(1)
			}
			go func() {
				defer cwg.Done()
				if !w.EarlyStop {
					defer wg.Done()
				}
				for _, c := range w.Changes {
					time.Sleep(time.Duration(c.AfterUs) * time.Microsecond)
					var v any = c.Value
					if c.Setting == "memory_budget_percent" {
						n, _ := strconv.Atoi(c.Value)
						config.UpdatePartialFromConfig(k.Cfg, map[string]any{"cache": map[string]any{"memory": map[string]any{c.Setting: n}}})
						continue
					}
					config.UpdatePartialFromConfig(k.Cfg, map[string]any{"cache": map[string]any{c.Setting: v}})
				}
			}()
			wg.Wait()
			if !w.EarlyStop {
				// every interval that was ever set is at most 10 ms: periodic cycles keep completing after the changes
				phase.Store("waiting for two more periodic cleanup cycles")
				from := metrics.Global.Cache.CleanupRuns.Get()
				for t0 := time.Now(); metrics.Global.Cache.CleanupRuns.Get() < from+2; time.Sleep(2 * time.Millisecond) {
					if time.Since(t0) > 12*time.Second {
						noCycles.Store(true)
						break
					}
				}
			}
			stallRelease := make(chan struct{})
			stallDone := make(chan struct{})
			if w.StallAtStop {
				started := make(chan struct{})
				go func() {
					defer close(stallDone)
					src := &stallingReader{head: cachekit.Body(0, 999, 64), started: started, release: stallRelease}
					if e, err := k.C.Cache(cachekit.Key(0), src, time.Now().Add(time.Hour), cachekit.Meta{Key: "k0", Ver: 999, Len: 64}); err == nil && e != nil && e.Data != nil {
						e.Data.Close()
					}
				}()
				select {
				case <-started:
				case <-time.After(2 * time.Second):
				}
			} else {
				close(stallDone)
			}
			phase.Store("destroy")
			k.C.Destroy()
			phase.Store("second destroy")
			k.C.Destroy()
			close(stallRelease)
			phase.Store("stalled store released after the stop")
			<-stallDone
			cwg.Wait()
		}()
		select {
		case <-done:
		case <-time.After(watchdog):
			dump := allStacks()
			if ok, g := parked(dump); ok {
				return ev.Failf("deadlock:"+phase.Load().(string), "%s backend, %d shards, limit %d: not finished after %v in phase %q; a cache goroutine is parked:\n%s", w.Backend, w.Shards, w.LimitBytes, watchdog, phase.Load(), clip(g, 1800))
			}
			ev.Incomplete("watchdog expired without a parked reservoir frame (inconclusive): %s/%d shards", w.Backend, w.Shards)
			o.Skip = true
			return nil
		}
		if noCycles.Load() {
			return ev.Failf("stall:no-cleanup-cycle", "%s backend, %d shards: after the run-time changes %v (every interval <= 10 ms) no periodic cleanup cycle completed for 12 s; janitor goroutine:\n%s", w.Backend, w.Shards, w.Changes, clip(janitors(allStacks()), 1500))
		}
		// the janitor belongs to the cache: some time after Destroy it is gone
		left := ""
		for t0 := time.Now(); time.Since(t0) < 5*time.Second; time.Sleep(20 * time.Millisecond) {
			if left = janitors(allStacks()); left == "" {
				break
			}
		}
		if left != "" {
			return ev.Failf("stop:janitor-survives", "%s backend, %d shards, changes %v: 5 s after Destroy() returned the cache's janitor goroutine is still there:\n%s", w.Backend, w.Shards, w.Changes, clip(left, 1500))
		}
		ev := metrics.Global.Cache.CacheEvictions.Get()
		runs := metrics.Global.Cache.CleanupRuns.Get()
		o.Class("backend:" + w.Backend)
		o.Classf("shards:%d", w.Shards)
		o.Classf("evictions:%v", ev > 0)
		o.Classf("janitor-cycles:%v", runs > 0)
		o.Classf("config-changes:%d", len(w.Changes))
		o.Classf("stop-during-changes:%v", w.EarlyStop && len(w.Changes) > 0)
		o.Classf("stalled-store-at-stop:%v", w.StallAtStop)
		o.NonTrivial = ev > 0 && runs > 0
		k.Close()
		return nil
	})

// stallingReader delivers head, signals, and then blocks until released (then ends with an error: the
// upstream went away).
type stallingReader struct {
	head     []byte
	off      int
	started  chan struct{}
	release  chan struct{}
	signaled bool
}

func (r *stallingReader) Read(p []byte) (int, error) {
	if r.off < len(r.head)/2 {
		n := copy(p, r.head[r.off:len(r.head)/2])
		r.off += n
		return n, nil
	}
	if !r.signaled {
		r.signaled = true
		close(r.started)
	}
	<-r.release
	return 0, cachekit.ErrInjected
}

func clip(s string, n int) string {
	if len(s) > n {
		return s[:n] + "…"
	}
	return s
}

func drawWorkload(t *rapid.T) Workload {
	w := Workload{
		Backend:   rapid.SampledFrom([]string{"memory", "file"}).Draw(t, "backend"),
		Shards:    rapid.SampledFrom([]int{1, 1, 2, 3, 64}).Draw(t, "shards"),
		JanitorMs: rapid.SampledFrom([]int{1, 1, 2, 5}).Draw(t, "janitor"),
		Procs:     rapid.SampledFrom([]int{0, 1, 2, 4, 16}).Draw(t, "procs"),
		YieldUs:   rapid.SampledFrom([]int{0, 0, 50, 500}).Draw(t, "yield"),
		EarlyStop: rapid.IntRange(0, 2).Draw(t, "early-stop") == 0,
	}
	w.StallAtStop = rapid.IntRange(0, 2).Draw(t, "stall-at-stop") == 0
	body := rapid.SampledFrom([]int{100, 4000, 60000}).Draw(t, "body")
	w.LimitBytes = int64(body) * int64(rapid.IntRange(2, 3).Draw(t, "bodies"))
	keys := rapid.SampledFrom([]int{2, 4, 12}).Draw(t, "keys")
	ng := rapid.IntRange(4, 32).Draw(t, "goroutines")
	for g := 0; g < ng; g++ {
		var plan []Op
		for i := rapid.IntRange(5, 40).Draw(t, "n"); i > 0; i-- {
			op := Op{Kind: rapid.SampledFrom([]string{"store", "store", "store", "get", "get", "delete", "update", "meta"}).Draw(t, "kind"), Key: rapid.IntRange(0, keys-1).Draw(t, "key")}
			if op.Kind == "store" {
				op.Size = body - rapid.IntRange(0, 50).Draw(t, "delta")
			}
			if op.Kind == "store" || op.Kind == "update" {
				// short and negative lifetimes: the 1 ms janitor finds expired entries while they are being revalidated or overwritten
				op.LifeMs = rapid.SampledFrom([]int{0, 0, -5, -1, 1, 2, 5, 20}).Draw(t, "life")
			}
			plan = append(plan, op)
		}
		w.Plans = append(w.Plans, plan)
	}
	for i := rapid.IntRange(0, 6).Draw(t, "nchanges"); i > 0; i-- {
		c := Change{AfterUs: rapid.SampledFrom([]int{0, 100, 1000, 3000}).Draw(t, "after")}
		switch rapid.IntRange(0, 2).Draw(t, "setting") {
		case 0:
			c.Setting, c.Value = "max_cache_size", fmt.Sprintf("%dB", int64(body)*int64(rapid.IntRange(1, 6).Draw(t, "mult")))
		case 1:
			c.Setting, c.Value = "cleanup_interval", rapid.SampledFrom([]string{"1ms", "2ms", "10ms", "500us"}).Draw(t, "interval")
		default:
			c.Setting, c.Value = "memory_budget_percent", fmt.Sprint(rapid.SampledFrom([]int{1, 10, 50, 100}).Draw(t, "pct"))
		}
		w.Changes = append(w.Changes, c)
	}
	return w
}

func TestCacheWorkloads(t *testing.T) {
	flag.Set("rapid.shrinktime", "40s")
	subWL.CheckSalt(t, 1, ev.N(150, 8000), drawWorkload)
}
