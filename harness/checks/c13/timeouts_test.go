package c13

import "time"

func init() {
	// a cleanup cycle or a store that never returns is a hang, reported with the stacks of the parked goroutines
	subSweep.WithTimeout(20 * time.Second)
	subEvict.WithTimeout(30 * time.Second)
	subInterval.WithTimeout(60 * time.Second)
}
