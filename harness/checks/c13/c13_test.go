package c13

import (
	"fmt"
	"os"
	"sort"
	"strings"
	"sync"
	"testing"
	"time"

	"pgregory.net/rapid"
	"reservoir/cache"
	"reservoir/config"
	"reservoir/metrics"
	"reservoir/utils"
	"reservoir/utils/verifhook"

	"verifharness/internal/cachekit"
	"verifharness/internal/ev"
)

func TestMain(m *testing.M)   { ev.Main(m, "C13") }
func TestReplay(t *testing.T) { ev.ReplayWitnesses(t) }

// Pop is a population of entries and a trigger.
type Pop struct {
	Backend string `json:"backend"`
	Shards  int    `json:"shards"`
	Sizes   []int  `json:"sizes"`    // entry i has Sizes[i] bytes
	Access  []int  `json:"access"`   // order in which the entries are touched last (a permutation; first = least recently used)
	LimitPc int    `json:"limit_pc"` // limit as a percentage of the total size
	Trigger string `json:"trigger"`  // cycle | store | limit-change
	NewSize int    `json:"new_size"` // store trigger: size of the new entry
	Big     bool   `json:"big"`      // sizes are multiples of 1 MiB (weighting family)
	// BudgetAfter > 0: after the limit was set, memory_budget_percent is changed to this value (never the binding
	// limit: it is a share of the machine's memory) - the configured limit still governs
	BudgetAfter int `json:"budget_after,omitempty"`
}

func (p Pop) String() string {
	return fmt.Sprintf("%s shards=%d sizes=%v lru-order=%v limit=%d%% trigger=%s new=%d budget-after=%d", p.Backend, p.Shards, p.Sizes, p.Access, p.LimitPc, p.Trigger, p.NewSize, p.BudgetAfter)
}

const spacing = 6 * time.Millisecond

func present(k *cachekit.Kit, n int) map[int]bool {
	out := map[int]bool{}
	for i := 0; i < n; i++ {
		if _, _, err := k.C.GetMetadata(cachekit.Key(i)); err == nil {
			out[i] = true
		}
	}
	return out
}

var subEvict = ev.Register("eviction-order",
	"populations of 2-8 entries (sizes < 1 MiB for the ordering claim, 1-4 MiB for the weighting family) stored and then touched in a drawn order with >= 6 ms spacing, a limit drawn relative to the total (50 / 90 / 100 / 101-130 %), and a trigger: synchronous cleanup cycle, store of a new entry, or run-time max_cache_size change followed by cycles; optionally memory_budget_percent is changed after the limit was set (it never binds); oracle: below the limit nothing is evicted; at or over it the survivors are the population minus the shortest least-recently-used-first prefix that brings the total to <= 80 % of the limit (entries sharing the storing key's shard on the memory backend are exempt; if they prevent reaching the target the case is classified exempt); for MiB-sized entries the dominance rule (no entry is evicted while an older and not smaller one survives); non-trivial = an eviction happened and left a survivor; distinct by (ranks evicted, shard pattern, trigger, backend)",
	func(p Pop, o *ev.Obs) *ev.Failure {
		n := len(p.Sizes)
		total := int64(0)
		for _, s := range p.Sizes {
			total += int64(s)
		}
		limit := total * int64(p.LimitPc) / 100
		if limit < 1 {
			limit = 1
		}
		startLimit := limit
		if p.Trigger == "limit-change" {
			startLimit = 1 << 40
		}
		k := cachekit.New(cachekit.Opts{Backend: p.Backend, Shards: p.Shards, MaxSize: 1 << 40})
		defer k.Close()
		far := time.Now().Add(time.Hour)
		for i := 0; i < n; i++ {
			e, err := k.Store(i, 1, p.Sizes[i], far, -1)
			if err != nil {
				return ev.Failf("evict.harness", "populate: %v", err)
			}
			e.Data.Close()
		}
		rank := make([]int, n) // rank[i] = position of entry i in LRU order (0 = least recently used)
		for pos, i := range p.Access {
			time.Sleep(spacing)
			if _, _, err := k.C.GetMetadata(cachekit.Key(i)); err != nil {
				return ev.Failf("evict.harness", "touch: %v", err)
			}
			rank[i] = pos
		}
		time.Sleep(spacing)
		if startLimit == limit {
			k.SetLimit(limit)
			time.Sleep(3 * time.Millisecond) // the backends learn the limit through an asynchronous notification
		}
		budgetChange := func() *ev.Failure {
			if p.BudgetAfter <= 0 {
				return nil
			}
			if _, err := config.UpdatePartialFromConfig(k.Cfg, map[string]any{"cache": map[string]any{"memory": map[string]any{"memory_budget_percent": p.BudgetAfter}}}); err != nil {
				return ev.Failf("evict.harness", "budget update rejected: %v", err)
			}
			time.Sleep(3 * time.Millisecond)
			return nil
		}
		if p.Trigger != "limit-change" {
			if f := budgetChange(); f != nil {
				return f
			}
		}
		newKey := n
		exempt := map[int]bool{}
		switch p.Trigger {
		case "cycle":
			k.C.VerifRunCleanupCycle()
		case "limit-change":
			cwd, _ := os.Getwd()
			_ = cwd
			if _, err := config.UpdatePartialFromConfig(k.Cfg, map[string]any{"cache": map[string]any{"max_cache_size": fmt.Sprintf("%dB", limit)}}); err != nil {
				return ev.Failf("evict.limit-update-rejected", "%s :: %v", p, err)
			}
			k.C.VerifRunCleanupCycle()
		case "store":
			if p.Backend == "memory" {
				shard := utils.Hex8ToIndex(cachekit.Key(newKey).Hex) % uint32(p.Shards)
				for i := 0; i < n; i++ {
					if utils.Hex8ToIndex(cachekit.Key(i).Hex)%uint32(p.Shards) == shard {
						exempt[i] = true
					}
				}
			}
			e, err := k.Store(newKey, 1, p.NewSize, far, -1)
			if err == nil {
				e.Data.Close()
			} else {
				o.Class("store-refused")
			}
		}
		got := present(k, n)
		// reference
		target := int64(float64(limit) * 0.8)
		order := make([]int, n)
		for i := range order {
			order[i] = i
		}
		sort.Slice(order, func(a, b int) bool { return rank[order[a]] < rank[order[b]] })
		want := map[int]bool{}
		for i := 0; i < n; i++ {
			want[i] = true
		}
		cur := total
		evictExpected := cur >= limit
		blocked := false
		if evictExpected {
			for _, i := range order {
				if cur <= target {
					break
				}
				if exempt[i] {
					blocked = true
					continue
				}
				delete(want, i)
				cur -= int64(p.Sizes[i])
			}
		}
		o.Class("trigger:" + p.Trigger)
		o.Class("backend:" + p.Backend)
		o.Classf("over-limit:%v", evictExpected)
		var evictedRanks []string
		for _, i := range order {
			if !got[i] {
				evictedRanks = append(evictedRanks, fmt.Sprint(rank[i]))
			}
		}
		o.NonTrivial = len(evictedRanks) > 0 && len(got) > 0
		o.Canon = fmt.Sprintf("%s|%s|%d|%s|%v|%v|%v", p.Backend, p.Trigger, n, strings.Join(evictedRanks, ","), len(exempt), p.Big, p.Sizes)
		desc := func() string {
			return fmt.Sprintf("%s :: total %d, limit %d, target %d; survivors %v, reference %v (exempt %v)", p, total, limit, target, keys(got), keys(want), keys(exempt))
		}
		if !evictExpected {
			if len(got) != n {
				return ev.Failf("evict.below-limit", "%s", desc())
			}
			return nil
		}
		if len(exempt) > 0 && blocked {
			o.Class("exempt-blocked")
		}
		if p.Big {
			// weighting family: only the dominance rule
			for x := 0; x < n; x++ {
				for y := 0; y < n; y++ {
					if !got[x] && got[y] && !exempt[y] && rank[y] < rank[x] && p.Sizes[y] >= p.Sizes[x] {
						return ev.Failf("evict.dominance", "%s :: entry %d (rank %d, %d bytes) was evicted while the older and not smaller entry %d (rank %d, %d bytes) survived", desc(), x, rank[x], p.Sizes[x], y, rank[y], p.Sizes[y])
					}
				}
			}
			var left int64
			for i := range got {
				left += int64(p.Sizes[i])
			}
			if !blocked && left > target {
				return ev.Failf("evict.target-missed", "%s :: %d bytes left, target %d", desc(), left, target)
			}
			return nil
		}
		for i := 0; i < n; i++ {
			if got[i] != want[i] {
				kind := "evicted-too-much"
				if got[i] {
					kind = "evicted-too-little"
				}
				if !got[i] && want[i] {
					// is it an ordering error (someone older survived) or an overshoot?
					for y := 0; y < n; y++ {
						if got[y] && rank[y] < rank[i] && !exempt[y] {
							kind = "wrong-order"
						}
					}
				}
				return ev.Failf("evict."+kind+":"+p.Trigger, "%s", desc())
			}
		}
		return nil
	})

func keys(m map[int]bool) []int {
	var out []int
	for k := range m {
		out = append(out, k)
	}
	sort.Ints(out)
	return out
}

func drawPop(t *rapid.T) Pop {
	p := Pop{
		Backend: rapid.SampledFrom([]string{"memory", "file"}).Draw(t, "backend"),
		Shards:  rapid.SampledFrom([]int{1, 2, 16}).Draw(t, "shards"),
		LimitPc: rapid.SampledFrom([]int{50, 50, 70, 90, 100, 101, 130}).Draw(t, "limit"),
		Trigger: rapid.SampledFrom([]string{"cycle", "cycle", "store", "limit-change"}).Draw(t, "trigger"),
		NewSize: rapid.SampledFrom([]int{1, 1000, 30000}).Draw(t, "new"),
		Big:     rapid.IntRange(0, 5).Draw(t, "big") == 0,
	}
	if rapid.IntRange(0, 2).Draw(t, "budget-change") == 0 {
		p.BudgetAfter = rapid.SampledFrom([]int{30, 50, 75, 100}).Draw(t, "budget")
	}
	n := rapid.IntRange(2, 8).Draw(t, "n")
	for i := 0; i < n; i++ {
		if p.Big {
			p.Sizes = append(p.Sizes, rapid.IntRange(1, 4).Draw(t, "mib")<<20)
		} else {
			p.Sizes = append(p.Sizes, rapid.SampledFrom([]int{1000, 5000, 20000, 60000}).Draw(t, "size"))
		}
	}
	if p.Big {
		p.NewSize = 1000
		if n > 5 {
			p.Sizes = p.Sizes[:5]
			n = 5
		}
	}
	p.Access = rapid.Permutation(seqN(n)).Draw(t, "access")
	return p
}

func seqN(n int) []int {
	out := make([]int, n)
	for i := range out {
		out[i] = i
	}
	return out
}

func TestEvictionOrder(t *testing.T) {
	subEvict.CheckSalt(t, 1, ev.N(250, 12000), drawPop)
}

// ---------------------------------------------------------------- expiry sweep

type Sweep struct {
	Backend    string `json:"backend"`
	Shards     int    `json:"shards"`
	ExpireInMs []int  `json:"expire_in_ms"` // per entry: expiry relative to the cycle (negative = already elapsed)
	Overwrite  int    `json:"overwrite"`    // >= 0: this (expired) entry is overwritten with a fresh one between the scan and the removal
}

var subSweep = ev.Register("expiry-sweep",
	"2-8 entries whose lifetimes end between 1 h before and 1 h after a synchronous cleanup cycle (and at +-60..500 ms); optionally an expired entry is overwritten with a fresh one at the yield point between the janitor's scan and its removal loop; oracle: after the cycle exactly the entries whose lifetime had elapsed are gone and every fresh one - including the freshly overwritten one - is still retrievable with its own body; non-trivial = the cycle saw both expired and fresh entries; distinct by expiry pattern + overwrite position",
	func(s Sweep, o *ev.Obs) *ev.Failure {
		k := cachekit.New(cachekit.Opts{Backend: s.Backend, Shards: s.Shards})
		defer k.Close()
		n := len(s.ExpireInMs)
		now := time.Now()
		nExp, nFresh := 0, 0
		for i, ms := range s.ExpireInMs {
			e, err := k.Store(i, 1, 500+i, now.Add(time.Duration(ms)*time.Millisecond), -1)
			if err != nil {
				return ev.Failf("sweep.harness", "populate: %v", err)
			}
			e.Data.Close()
			if ms < 0 {
				nExp++
			} else {
				nFresh++
			}
		}
		overwritten := false
		if s.Overwrite >= 0 && s.Overwrite < n && s.ExpireInMs[s.Overwrite] < 0 {
			verifhook.Set(func(name string, _ ...string) {
				if name == "janitor.afterScan" && !overwritten {
					overwritten = true
					if e, err := k.Store(s.Overwrite, 2, 777, time.Now().Add(time.Hour), -1); err == nil {
						e.Data.Close()
					}
				}
			})
			defer verifhook.Set(nil)
		}
		k.C.VerifRunCleanupCycle()
		verifhook.Set(nil)
		o.Classf("overwrite-in-window:%v", overwritten)
		o.Class("backend:" + s.Backend)
		o.NonTrivial = nExp > 0 && nFresh > 0
		got := present(k, n)
		for i, ms := range s.ExpireInMs {
			wantPresent := ms > 0
			if overwritten && i == s.Overwrite {
				wantPresent = true
			}
			if got[i] != wantPresent {
				switch {
				case overwritten && i == s.Overwrite:
					return ev.Failf("sweep.fresh-overwrite-removed", "%s shards=%d expiries(ms)=%v: entry %d was overwritten with a fresh version after the janitor's scan and the sweep removed it", s.Backend, s.Shards, s.ExpireInMs, i)
				case wantPresent:
					return ev.Failf("sweep.fresh-removed", "%s shards=%d expiries(ms)=%v: entry %d is still fresh (%d ms left) but the cycle removed it", s.Backend, s.Shards, s.ExpireInMs, i, ms)
				default:
					return ev.Failf("sweep.expired-kept", "%s shards=%d expiries(ms)=%v: entry %d expired %d ms before the cycle but survived it", s.Backend, s.Shards, s.ExpireInMs, i, -ms)
				}
			}
		}
		if overwritten {
			e, err := k.C.Get(cachekit.Key(s.Overwrite))
			if err != nil || e.Metadata.Object.Ver != 2 {
				return ev.Failf("sweep.fresh-overwrite-removed", "entry %d after the sweep: %v", s.Overwrite, err)
			}
			e.Data.Close()
		}
		return nil
	})

func TestExpirySweep(t *testing.T) {
	subSweep.CheckSalt(t, 2, ev.N(600, 60000), func(t *rapid.T) Sweep {
		s := Sweep{Backend: rapid.SampledFrom([]string{"memory", "file"}).Draw(t, "backend"), Shards: rapid.SampledFrom([]int{1, 2, 16}).Draw(t, "shards"), Overwrite: -1}
		n := rapid.IntRange(2, 8).Draw(t, "n")
		for i := 0; i < n; i++ {
			s.ExpireInMs = append(s.ExpireInMs, rapid.SampledFrom([]int{-3600000, -1000, -500, -60, 60, 500, 1000, 3600000}).Draw(t, "exp"))
		}
		if rapid.IntRange(0, 2).Draw(t, "ow") == 0 {
			s.Overwrite = rapid.IntRange(0, n-1).Draw(t, "ow-idx")
		}
		return s
	})
}

// ---------------------------------------------------------------- run-time interval change

type Interval struct {
	Backend string `json:"backend"`
	NewMs   int    `json:"new_ms"`
	// Earlier lists settings (ms) applied, each accepted, before NewMs; InCycle issues the whole series
	// while the janitor is held inside a cleanup cycle (hook H2), so that it finds them waiting.
	Earlier []int `json:"earlier,omitempty"`
	InCycle bool  `json:"in_cycle,omitempty"`
}

func setInterval(k *cachekit.Kit, ms int) error {
	_, err := config.UpdatePartialFromConfig(k.Cfg, map[string]any{"cache": map[string]any{"cleanup_interval": fmt.Sprintf("%dms", ms)}})
	return err
}

var subInterval = ev.Register("interval-change",
	"a cache receives a series of 1-3 accepted run-time cleanup_interval updates (1 h / 5-40 ms values, the last one 5-40 ms), either while its janitor idles on a 1 h interval or while it is held inside a cleanup cycle (hook H2) so that it finds the changes waiting; changes are spaced (60 ms, 600 ms on the confirming run) so that the recorded unordered-notification finding of C19 does not apply; oracle: cleanup cycles then run at the rate of the last setting (cleanup_runs advances by >= 3 within 100 intervals + 2 s); non-trivial = always; distinct by (backend, series, in-cycle)",
	func(c Interval, o *ev.Obs) *ev.Failure {
		f := runInterval(c, o, 60*time.Millisecond)
		if f != nil && len(c.Earlier) > 0 && f.Sig == "interval.not-followed" {
			// a notification goroutine that did not get to run for 60 ms would be C19's recorded finding, not
			// this one: confirm with ten times the spacing
			o.Class("confirmed-with-wider-spacing")
			f = runInterval(c, &ev.Obs{}, 600*time.Millisecond)
		}
		return f
	})

func runInterval(c Interval, o *ev.Obs, gap time.Duration) *ev.Failure {
	start := time.Hour
	if c.InCycle {
		start = 15 * time.Millisecond
	}
	inCycle, release := make(chan struct{}), make(chan struct{})
	if c.InCycle {
		var once sync.Once
		verifhook.Set(func(name string, _ ...string) {
			if name == "janitor.afterScan" {
				once.Do(func() {
					close(inCycle)
					select {
					case <-release:
					case <-time.After(20 * time.Second):
					}
				})
			}
		})
		defer verifhook.Set(nil)
	}
	k := cachekit.New(cachekit.Opts{Backend: c.Backend, Cleanup: start})
	defer k.Close()
	if c.InCycle {
		select {
		case <-inCycle:
		case <-time.After(10 * time.Second):
			close(release)
			return ev.Failf("interval.harness", "no cleanup cycle within 10 s on a 15 ms interval")
		}
	} else {
		time.Sleep(5 * time.Millisecond)
		if r := metrics.Global.Cache.CleanupRuns.Get(); r != 0 {
			return ev.Failf("interval.harness", "cycles ran before the change: %d", r)
		}
	}
	for _, ms := range c.Earlier {
		if err := setInterval(k, ms); err != nil {
			if c.InCycle {
				close(release)
			}
			return ev.Failf("interval.update-rejected", "%v", err)
		}
		time.Sleep(gap)
	}
	err := setInterval(k, c.NewMs)
	if c.InCycle {
		time.Sleep(gap)
		close(release)
	}
	if err != nil {
		return ev.Failf("interval.update-rejected", "%v", err)
	}
	o.NonTrivial = true
	o.Classf("series:%d", len(c.Earlier)+1)
	o.Classf("in-cycle:%v", c.InCycle)
	base := metrics.Global.Cache.CleanupRuns.Get()
	budget := time.Duration(100*c.NewMs)*time.Millisecond + 2*time.Second
	deadline := time.Now().Add(budget)
	for time.Now().Before(deadline) {
		if metrics.Global.Cache.CleanupRuns.Get() >= base+3 {
			return nil
		}
		time.Sleep(2 * time.Millisecond)
	}
	return ev.Failf("interval.not-followed", "%s: cleanup_interval series %v then %dms (issued while the janitor was inside a cycle: %v): only %d cycles ran in %v after the last change", c.Backend, c.Earlier, c.NewMs, c.InCycle, metrics.Global.Cache.CleanupRuns.Get()-base, budget)
}

func TestIntervalChange(t *testing.T) {
	subInterval.CheckSalt(t, 3, ev.N(14, 400), func(t *rapid.T) Interval {
		c := Interval{Backend: rapid.SampledFrom([]string{"memory", "file"}).Draw(t, "backend"), NewMs: rapid.SampledFrom([]int{5, 10, 20, 40}).Draw(t, "ms")}
		for i := rapid.IntRange(0, 2).Draw(t, "earlier"); i > 0; i-- {
			c.Earlier = append(c.Earlier, rapid.SampledFrom([]int{3600000, 3600000, 7200000, 30, 8}).Draw(t, "earlier-ms"))
		}
		c.InCycle = rapid.Bool().Draw(t, "in-cycle")
		return c
	})
}

var _ = cache.ErrCacheEntryNotFound
