package c13

// "Larger entries weighted up": of two entries used at (practically) the same moment the much larger
// one is evicted first - and if that alone reaches the target the small one stays. The exact weight is
// the implementation's business; that size decides between equally recent entries is not.

import (
	"testing"
	"time"

	"pgregory.net/rapid"
	"reservoir/utils"

	"verifharness/internal/cachekit"
	"verifharness/internal/ev"
)

type Weight struct {
	Backend    string `json:"backend"`
	BigMiB     int    `json:"big_mib"`
	SmallBytes int    `json:"small_bytes"`
	SmallFirst bool   `json:"small_first"` // the small entry is touched a moment before the big one
	Trigger    string `json:"trigger"`     // cycle | store
}

var subWeight = ev.Register("size-weight",
	"a small entry (1-100 kB) and a big one (4-16 MiB) are touched back to back (measured gap < 2 ms, in either order), a 1 MiB filler is touched 6 ms later, the limit is set to the total and an eviction is triggered (cleanup cycle or a 1-byte store); evicting the big entry alone reaches the 80 % target, evicting the small one does not; oracle: the big entry is evicted and the small one and the filler survive - between equally recent entries size decides, and eviction stops at the target; non-trivial = the small entry was the (marginally) older one; distinct by case",
	func(c Weight, o *ev.Obs) *ev.Failure {
		k := cachekit.New(cachekit.Opts{Backend: c.Backend, Shards: 64, MaxSize: 1 << 40})
		defer k.Close()
		far := time.Now().Add(time.Hour)
		const S, B, F = 0, 1, 2
		sizes := []int{c.SmallBytes, c.BigMiB << 20, 1 << 20}
		for i, n := range sizes {
			e, err := k.Store(i, 1, n, far, -1)
			if err != nil {
				return ev.Failf("evict.harness", "populate: %v", err)
			}
			e.Data.Close()
		}
		time.Sleep(spacing)
		first, second := S, B
		if !c.SmallFirst {
			first, second = B, S
		}
		t0 := time.Now()
		k.C.GetMetadata(cachekit.Key(first))
		k.C.GetMetadata(cachekit.Key(second))
		gap := time.Since(t0)
		time.Sleep(spacing)
		k.C.GetMetadata(cachekit.Key(F))
		time.Sleep(spacing)
		if gap > 2*time.Millisecond {
			o.Skip = true // the machine stalled between the two touches: they are not "equally recent"
			return nil
		}
		total := int64(sizes[S] + sizes[B] + sizes[F])
		k.SetLimit(total)
		time.Sleep(3 * time.Millisecond)
		switch c.Trigger {
		case "store":
			// entries sharing the storing key's shard cannot be locked by the eviction it starts (exempt)
			shard := utils.Hex8ToIndex(cachekit.Key(3).Hex) % 64
			for i := 0; i < 3; i++ {
				if utils.Hex8ToIndex(cachekit.Key(i).Hex)%64 == shard {
					o.Skip = true
					return nil
				}
			}
			if e, err := k.Store(3, 1, 1, far, -1); err == nil {
				e.Data.Close()
			}
		default:
			k.C.VerifRunCleanupCycle()
		}
		got := present(k, 3)
		o.NonTrivial = c.SmallFirst
		o.Class("backend:" + c.Backend)
		o.Classf("small-first:%v", c.SmallFirst)
		if got[B] && got[S] && got[F] {
			return ev.Failf("evict.evicted-too-little:weight", "%s: at the limit (%d bytes) nothing was evicted", c.Backend, total)
		}
		if !got[S] || !got[F] {
			return ev.Failf("evict.size-not-weighted", "%s, trigger %s: small entry (%d bytes) and big entry (%d MiB) touched %v apart (small first: %v), filler touched 6 ms later; evicting the big one alone reaches the target, yet after the eviction: small present=%v big present=%v filler present=%v", c.Backend, c.Trigger, c.SmallBytes, c.BigMiB, gap, c.SmallFirst, got[S], got[B], got[F])
		}
		return nil
	})

func TestSizeWeight(t *testing.T) {
	subWeight.CheckSalt(t, 23, ev.N(24, 1200), func(t *rapid.T) Weight {
		return Weight{
			Backend:    rapid.SampledFrom([]string{"memory", "file"}).Draw(t, "backend"),
			BigMiB:     rapid.SampledFrom([]int{4, 8, 16}).Draw(t, "big"),
			SmallBytes: rapid.SampledFrom([]int{1000, 20000, 100000}).Draw(t, "small"),
			SmallFirst: rapid.IntRange(0, 3).Draw(t, "small-first") != 0,
			Trigger:    rapid.SampledFrom([]string{"cycle", "store"}).Draw(t, "trigger"),
		}
	})
}
