package c13

// Several stores (or a store and the periodic cycle) can find the cache over its limit at the same
// moment; every one of them starts an eviction. Together they must still stop at the target: each may
// at worst remove the one entry it had already picked when another one reached the target.

import (
	"sync"
	"testing"
	"time"

	"pgregory.net/rapid"

	"verifharness/internal/cachekit"
	"verifharness/internal/ev"
)

type ConcEvict struct {
	Backend string `json:"backend"`
	Shards  int    `json:"shards"`
	N       int    `json:"entries"`
	Size    int    `json:"size"`
	K       int    `json:"concurrent_stores"`
	Cycle   bool   `json:"with_cycle"` // a cleanup cycle (hook H3) runs at the same moment
	Rounds  int    `json:"rounds"`
}

var subConc = ev.Register("concurrent-evictions",
	"a cache filled to its limit with 40-150 equal entries (memory/file, 16/64 shards) receives 2-6 stores of new keys on distinct keys at the same moment (optionally together with a cleanup cycle), for 2-5 rounds with a refill in between; oracle after each round, at rest: what is left is at least the eviction target (80 % of the limit) minus one entry per concurrent evictor - overlapping evictions together stop at the target instead of each freeing its own 20 % - and at most the limit; non-trivial = an eviction happened; distinct by (backend, shards, sizes, k)",
	func(c ConcEvict, o *ev.Obs) *ev.Failure {
		limit := int64(c.N*c.Size + c.Size/2)
		k := cachekit.New(cachekit.Opts{Backend: c.Backend, Shards: c.Shards, MaxSize: limit, Cleanup: time.Hour})
		defer k.Close()
		far := time.Now().Add(time.Hour)
		next := 0
		fill := func() {
			// top up with new keys until one more entry would not fit
			for tries := 0; tries < 4*c.N; tries++ {
				b, _ := cachekit.Reported()
				if b+int64(c.Size) > limit {
					return
				}
				if e, err := k.Store(next, 1, c.Size, far, -1); err == nil {
					e.Data.Close()
				}
				next++
			}
		}
		evictors := c.K
		if c.Cycle {
			evictors++
		}
		for round := 0; round < c.Rounds; round++ {
			fill()
			before, _ := cachekit.Reported()
			if before+int64(c.Size) <= limit {
				return ev.Failf("evict.harness", "could not fill the cache: %d of %d bytes", before, limit)
			}
			start := make(chan struct{})
			var wg sync.WaitGroup
			for g := 0; g < c.K; g++ {
				wg.Add(1)
				key := next
				next++
				go func() {
					defer wg.Done()
					<-start
					if e, err := k.Store(key, 1, c.Size, far, -1); err == nil {
						e.Data.Close()
					}
				}()
			}
			if c.Cycle {
				wg.Add(1)
				go func() {
					defer wg.Done()
					<-start
					k.C.VerifRunCleanupCycle()
				}()
			}
			close(start)
			wg.Wait()
			after, entries := cachekit.Reported()
			target := limit * 8 / 10
			floor := target - int64((evictors+1)*c.Size)
			o.NonTrivial = o.NonTrivial || after < before+int64(c.K*c.Size)
			if after < floor {
				return ev.Failf("evict.overshoot:concurrent", "%s, %d shards, limit %d (%d entries of %d bytes): %d stores%s at the same moment left %d bytes in %d entries; the target is %d and %d overlapping evictions may overshoot it by one entry each (%d)",
					c.Backend, c.Shards, limit, c.N, c.Size, c.K, map[bool]string{true: " and a cleanup cycle", false: ""}[c.Cycle], after, entries, target, evictors, floor)
			}
			if after > limit+int64(c.K*c.Size) {
				return ev.Failf("evict.limit-exceeded:concurrent", "%s: %d bytes stored under a limit of %d after %d concurrent stores", c.Backend, after, limit, c.K)
			}
		}
		o.Class("backend:" + c.Backend)
		o.Classf("evictors:%d", evictors)
		return nil
	})

func TestConcurrentEvictions(t *testing.T) {
	subConc.CheckSalt(t, 13, ev.N(30, 3000), func(t *rapid.T) ConcEvict {
		return ConcEvict{
			Backend: rapid.SampledFrom([]string{"memory", "file"}).Draw(t, "backend"),
			Shards:  rapid.SampledFrom([]int{16, 64}).Draw(t, "shards"),
			N:       rapid.SampledFrom([]int{40, 100, 150}).Draw(t, "n"),
			Size:    rapid.SampledFrom([]int{200, 1000, 4000}).Draw(t, "size"),
			K:       rapid.IntRange(2, 6).Draw(t, "k"),
			Cycle:   rapid.Bool().Draw(t, "cycle"),
			Rounds:  rapid.IntRange(2, 5).Draw(t, "rounds"),
		}
	})
}
