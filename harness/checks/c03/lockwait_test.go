package c03

// "Once that lifetime has elapsed the origin is contacted before the entry is used again" is decided by the
// cache's Get at the moment it answers. A lookup can wait for its lock shard - a store of another key in the
// same shard streams its body under that lock - and the entry's lifetime can end during that wait. The
// harness owns the schedule: a store whose source stalls holds the shard, the lookup queues behind it, the
// store is released only after the entry has expired.

import (
	"fmt"
	"io"
	"testing"
	"time"

	"pgregory.net/rapid"

	"verifharness/internal/cachekit"
	"verifharness/internal/ev"
)

type LockWait struct {
	Backend  string `json:"backend"`
	Shards   int    `json:"shards"`
	LifeMs   int    `json:"life_ms"`   // the entry's remaining lifetime when the blocking store starts
	HoldMs   int    `json:"hold_ms"`   // how long the blocking store keeps the shard
	SameKey  bool   `json:"same_key"`  // the blocking store is an overwrite of the very key that is looked up
	EndsWell bool   `json:"ends_well"` // the blocking store ends with a complete body (else its source fails)
}

type gateReader struct {
	head    []byte
	off     int
	started chan struct{}
	release chan struct{}
	ok      bool
	sent    bool
}

func (r *gateReader) Read(p []byte) (int, error) {
	if r.off < len(r.head)/2 {
		n := copy(p, r.head[r.off:len(r.head)/2])
		r.off += n
		return n, nil
	}
	if !r.sent {
		r.sent = true
		close(r.started)
		<-r.release
	}
	if !r.ok {
		return 0, cachekit.ErrInjected
	}
	if r.off >= len(r.head) {
		return 0, io.EOF
	}
	n := copy(p, r.head[r.off:])
	r.off += n
	return n, nil
}

var subLockWait = ev.Register("stale-when-answered",
	"an entry with 20-80 ms of lifetime left; a store of another key of the same lock shard (or an overwrite of the same key) stalls in the middle of its body and holds the shard for 120-250 ms; a Get of the entry queues behind it and is answered after the lifetime has ended; oracle: a Get that could only have taken its lock after the blocking store was released (the harness records that instant) and whose entry expired before that instant reports the entry stale - the lifetime is judged when the lookup is answered, not when it arrived; non-trivial = the lookup did wait across the expiry; distinct by case",
	func(c LockWait, o *ev.Obs) *ev.Failure {
		k := cachekit.New(cachekit.Opts{Backend: c.Backend, Shards: c.Shards})
		defer k.Close()
		expires := time.Now().Add(time.Duration(c.LifeMs) * time.Millisecond)
		if e, err := k.Store(0, 1, 300, expires, -1); err != nil {
			return ev.Failf("lockwait.harness", "store: %v", err)
		} else {
			e.Data.Close()
		}
		blockKey := 1
		if c.SameKey {
			blockKey = 0
		}
		// with more than one shard, find another key that shares key 0's shard
		if !c.SameKey && c.Shards > 1 {
			blockKey = cachekit.SameShard(0, c.Shards)
		}
		src := &gateReader{head: cachekit.Body(blockKey, 2, 400), started: make(chan struct{}), release: make(chan struct{}), ok: c.EndsWell}
		storeDone := make(chan struct{})
		go func() {
			defer close(storeDone)
			if e, err := k.C.Cache(cachekit.Key(blockKey), src, time.Now().Add(time.Hour), cachekit.Meta{Key: fmt.Sprintf("k%d", blockKey), Ver: 2, Len: 400}); err == nil && e != nil && e.Data != nil {
				e.Data.Close()
			}
		}()
		select {
		case <-src.started:
		case <-time.After(5 * time.Second):
			return ev.Failf("lockwait.harness", "the blocking store never reached its stall point")
		}
		type got struct {
			stale bool
			found bool
			ver   int
			at    time.Time
		}
		res := make(chan got, 1)
		called := time.Now()
		go func() {
			e, err := k.C.Get(cachekit.Key(0))
			g := got{at: time.Now()}
			if err == nil {
				g.found, g.stale, g.ver = true, e.Stale, e.Metadata.Object.Ver
				e.Data.Close()
			}
			res <- g
		}()
		time.Sleep(time.Duration(c.HoldMs) * time.Millisecond)
		released := time.Now()
		close(src.release)
		g := <-res
		<-storeDone
		waited := g.at.Sub(called) >= time.Duration(c.HoldMs)*time.Millisecond*8/10
		o.Classf("lookup-waited:%v", waited)
		o.Class("backend:" + c.Backend)
		o.Classf("same-key:%v", c.SameKey)
		o.NonTrivial = waited && expires.Before(released)
		if !waited || !g.found {
			return nil // the lookup did not queue behind the store (no shared lock), or the entry is gone: nothing to judge
		}
		if g.ver == 1 && !g.stale && expires.Before(released) {
			return ev.Failf("lifetime.judged-at-arrival", "%s backend, %d shards: the entry expired %v before the blocking store was released; the lookup, which arrived %v before the expiry and was answered %v after it, reports the entry fresh", c.Backend, c.Shards,
				released.Sub(expires).Round(time.Millisecond), expires.Sub(called).Round(time.Millisecond), g.at.Sub(expires).Round(time.Millisecond))
		}
		return nil
	})

func TestStaleWhenAnswered(t *testing.T) {
	subLockWait.CheckSalt(t, 11, ev.N(24, 1500), func(t *rapid.T) LockWait {
		return LockWait{
			Backend:  rapid.SampledFrom([]string{"memory", "file"}).Draw(t, "backend"),
			Shards:   rapid.SampledFrom([]int{1, 1, 2, 16}).Draw(t, "shards"),
			LifeMs:   rapid.SampledFrom([]int{20, 40, 80}).Draw(t, "life"),
			HoldMs:   rapid.SampledFrom([]int{120, 180, 250}).Draw(t, "hold"),
			SameKey:  rapid.IntRange(0, 3).Draw(t, "same-key") == 0,
			EndsWell: rapid.Bool().Draw(t, "ends-well"),
		}
	})
}
