package c03

import (
	"bytes"
	"fmt"
	"sync"
	"testing"
	"time"

	"pgregory.net/rapid"

	"verifharness/internal/ev"
	"verifharness/internal/gen"
	"verifharness/internal/origin"
	"verifharness/internal/px"
)

// Op is one step of a timed history on one resource.
type Op struct {
	Kind string  `json:"kind"` // "get" | "sleep" | "bump"
	Frac float64 `json:"frac,omitempty"`
}

type HistCase struct {
	Backend   string    `json:"backend"`
	Transport string    `json:"transport"`
	LMs       int       `json:"lifetime_ms"`
	Forced    bool      `json:"forced"` // force_default_max_age + ignore_cache_control with arbitrary origin freshness headers
	Fresh     gen.Fresh `json:"fresh"`
	Histories [][]Op    `json:"histories"`
}

const marginMs = 30

type histResult struct {
	fail       *ev.Failure
	mustHit    int
	mustExpire int
	ambiguous  int
}

func runHistory(env *px.Env, org *origin.Origin, site *origin.Site, c HistCase, idx int, ops []Op) (res histResult) {
	path := fmt.Sprintf("/h%d", idx)
	id := fmt.Sprintf("h%d", idx)
	L := time.Duration(c.LMs) * time.Millisecond
	margin := marginMs * time.Millisecond
	originVer := 1
	mk := func(v int) origin.Version {
		ver := origin.Version{Ver: v, Len: 200 + 10*v, ETag: fmt.Sprintf(`"%s-v%d"`, id, v)}
		if c.Forced {
			for _, l := range c.Fresh.CC {
				ver.Headers = append(ver.Headers, origin.HV{K: "Cache-Control", V: l})
			}
			for _, l := range c.Fresh.Expires {
				ver.Headers = append(ver.Headers, origin.HV{K: "Expires", V: l})
			}
			if c.Fresh.Date != "" {
				ver.Headers = append(ver.Headers, origin.HV{K: "Date", V: c.Fresh.Date})
			}
		}
		return ver
	}
	site.Set(path, id, mk(originVer))
	hasEntry := false
	storedVer := 0
	var storeT0, storeT1 time.Time
	n := 0
	for _, op := range ops {
		switch op.Kind {
		case "sleep":
			time.Sleep(time.Duration(op.Frac * float64(L)))
		case "bump":
			originVer++
			site.Set(path, id, mk(originVer))
		case "get":
			n++
			rid := fmt.Sprintf("%s-g%d", id, n)
			resp, err := env.Via(c.Transport, px.Req{Method: "GET", Host: org.Addr(), Target: path, ReqID: rid})
			if err != nil || resp.ReadErr != nil {
				res.fail = ev.Failf("history.no-response", "%s: %v %v", rid, err, resp)
				return
			}
			entries := org.ByReqID(rid)
			if resp.Status != 200 {
				res.fail = ev.Failf("history.status", "%s: status %d", rid, resp.Status)
				return
			}
			if f := checkLabels(rid, resp, entries); f != nil {
				res.fail = f
				return
			}
			contacted := len(entries) > 0
			if hasEntry {
				lo, hi := storeT0.Add(L), storeT1.Add(L)
				switch {
				case resp.T1.Before(lo.Add(-margin)):
					res.mustHit++
					if contacted {
						res.fail = ev.Failf("history.fresh-entry-refetched", "%s: entry stored %v-%v ago with lifetime %v, yet the origin was contacted (X-Cache %s)", rid,
							resp.T1.Sub(storeT1).Round(time.Millisecond), resp.T1.Sub(storeT0).Round(time.Millisecond), L, resp.Header.Get("X-Cache"))
						return
					}
				case resp.T0.After(hi.Add(margin)):
					res.mustExpire++
					if !contacted {
						res.fail = ev.Failf("history.served-after-expiry", "%s: request sent %v after the lifetime %v of the stored response had elapsed was answered without contacting the origin (X-Cache %s, forced=%v, origin headers %q %q)", rid,
							resp.T0.Sub(hi).Round(time.Millisecond), L, resp.Header.Get("X-Cache"), c.Forced, c.Fresh.CC, c.Fresh.Expires)
						return
					}
				default:
					res.ambiguous++
				}
			} else if !contacted {
				res.fail = ev.Failf("history.hit-without-entry", "%s: first request answered without contacting the origin", rid)
				return
			}
			wantVer := storedVer
			if contacted {
				last := entries[len(entries)-1]
				if last.Status == 200 {
					wantVer = last.Ver
				}
				storedVer = wantVer
				storeT0, storeT1 = resp.T0, resp.T1
				hasEntry = true
			}
			if !bytes.Equal(resp.Body, origin.BodyOf(id, mk(wantVer))) {
				res.fail = ev.Failf("history.wrong-body", "%s: body is not version %d (contacted=%v)", rid, wantVer, contacted)
				return
			}
			if contacted && wantVer != originVer {
				res.fail = ev.Failf("history.stale-after-origin-contact", "%s: origin is at version %d and was contacted, client got version %d", rid, originVer, wantVer)
				return
			}
		}
	}
	return
}

var subHist = ev.Register("timed-histories",
	"8-16 concurrent per-resource histories of get / sleep(fraction of the lifetime: 0.15-0.4 fresh, 1.7-2.5 expired, 1.0 ambiguous) / origin version bump with a 100-240 ms lifetime through the default branch or through force_default_max_age with arbitrary origin freshness headers; oracle outside a +-30 ms window: a request inside the lifetime is a HIT with no origin log entry, a request after it has an origin log entry and is not labelled HIT; labels always agree with the origin log; bodies are the stored / fresh version; non-trivial = a history decided at least one fresh reuse and one post-expiry contact on the same entry; distinct by history",
	func(c HistCase, o *ev.Obs) *ev.Failure {
		site := origin.NewSite()
		org := origin.New(site.Handler())
		defer org.Close()
		L := time.Duration(c.LMs) * time.Millisecond
		env := px.New(px.Opts{Backend: c.Backend, DefaultMaxAge: L, ForceDefault: c.Forced, IgnoreCC: c.Forced})
		defer env.Close()
		results := make([]histResult, len(c.Histories))
		var wg sync.WaitGroup
		for i, h := range c.Histories {
			wg.Add(1)
			go func(i int, h []Op) {
				defer wg.Done()
				results[i] = runHistory(env, org, site, c, i, h)
			}(i, h)
		}
		wg.Wait()
		if p := env.Panics(); p != "" {
			return ev.Failf("history.handler-panic", "%s", p)
		}
		both, hit, exp, amb := 0, 0, 0, 0
		var fail *ev.Failure
		for _, r := range results {
			if r.fail != nil && fail == nil {
				fail = r.fail
			}
			hit += r.mustHit
			exp += r.mustExpire
			amb += r.ambiguous
			if r.mustHit > 0 && r.mustExpire > 0 {
				both++
			}
		}
		o.Classf("forced:%v", c.Forced)
		o.Classf("decided-fresh:%d", bucket(hit))
		o.Classf("decided-expired:%d", bucket(exp))
		o.Classf("ambiguous:%d", bucket(amb))
		o.NonTrivial = both > 0
		return fail
	})

func bucket(n int) int {
	switch {
	case n == 0:
		return 0
	case n < 5:
		return 1
	case n < 20:
		return 5
	default:
		return 20
	}
}

func drawHist(t *rapid.T) HistCase {
	c := HistCase{
		Backend:   rapid.SampledFrom([]string{"memory", "file"}).Draw(t, "backend"),
		Transport: rapid.SampledFrom([]string{"plain", "plain", "tunnel"}).Draw(t, "transport"),
		LMs:       rapid.SampledFrom([]int{100, 160, 240}).Draw(t, "L"),
		Forced:    rapid.IntRange(0, 2).Draw(t, "forced") == 0,
	}
	if c.Forced {
		c.Fresh = gen.DrawFresh(t, time.Now())
	}
	nh := rapid.IntRange(8, 16).Draw(t, "histories")
	for i := 0; i < nh; i++ {
		var ops []Op
		ops = append(ops, Op{Kind: "get"})
		nops := rapid.IntRange(2, 5).Draw(t, "nops")
		for j := 0; j < nops; j++ {
			switch rapid.IntRange(0, 9).Draw(t, "gap") {
			case 0, 1, 2, 3:
				ops = append(ops, Op{Kind: "sleep", Frac: rapid.SampledFrom([]float64{0.15, 0.25, 0.4}).Draw(t, "fresh")})
			case 4, 5, 6, 7:
				ops = append(ops, Op{Kind: "sleep", Frac: rapid.SampledFrom([]float64{1.7, 2.0, 2.5}).Draw(t, "expired")})
			case 8:
				ops = append(ops, Op{Kind: "sleep", Frac: 1.0})
			}
			if rapid.IntRange(0, 3).Draw(t, "bump") == 0 {
				ops = append(ops, Op{Kind: "bump"})
			}
			ops = append(ops, Op{Kind: "get"})
		}
		c.Histories = append(c.Histories, ops)
	}
	return c
}

func TestTimedHistories(t *testing.T) {
	subHist.CheckSalt(t, 3, ev.N(20, 2400), drawHist)
}
