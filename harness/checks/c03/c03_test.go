package c03

import (
	"bytes"
	"fmt"
	"net/http"
	"regexp"
	"strconv"
	"strings"
	"testing"
	"time"
	"verifharness/internal/scen"

	"pgregory.net/rapid"
	"reservoir/proxy/headers"

	"verifharness/internal/ev"
	"verifharness/internal/gen"
	"verifharness/internal/origin"
	"verifharness/internal/px"
	"verifharness/internal/ref"
)

func TestMain(m *testing.M) { ev.Main(m, "C03") }

func TestReplay(t *testing.T) { ev.ReplayWitnesses(t) }

// ---------------------------------------------------------------- (i) header -> lifetime, no waiting

type LifeCase struct {
	Fresh gen.Fresh `json:"fresh"`
	Force bool      `json:"force_default_max_age"`
	DefMs int       `json:"default_max_age_ms"`
}

var subLife = ev.Register("lifetime-unit",
	"Cache-Control/Expires line sets x force_default_max_age x default_max_age through headers.ParseHeaderDirective(...).GetExpiresOrDefault, compared inside the call's clock window with the reference lifetime (forced default > well-formed positive max-age (at most) > Expires (at most; unparseable = already expired) > default); EITHER for malformed/overflowing/conflicting max-age and non-RFC1123 dates; non-trivial = reference is not EITHER and the set has a freshness header; distinct by canonical line set + flags",
	func(c LifeCase, o *ev.Obs) *ev.Failure {
		def := time.Duration(c.DefMs) * time.Millisecond
		hd := headers.ParseHeaderDirective(c.Fresh.Header())
		t0 := time.Now()
		got := hd.GetExpiresOrDefault(c.Force, def)
		t1 := time.Now()
		fr := ref.ReadFreshness(c.Fresh.CC, c.Fresh.Expires, t0)
		life := fr.LifetimeOf(c.Force, def)
		o.Class("lifetime:" + life.Kind)
		o.Classf("force:%v", c.Force)
		o.Class("max-age:" + fr.MaxAge)
		o.Class("expires:" + fr.Expires)
		o.NonTrivial = life.Kind != "either" && (len(c.Fresh.CC) > 0 || len(c.Fresh.Expires) > 0)
		o.Canon = fmt.Sprintf("%s|%v|%d", c.Fresh.Canon(), c.Force, c.DefMs)
		src := "default"
		switch {
		case c.Force:
			src = "forced-default"
		case fr.MaxAge == "positive":
			src = "max-age"
		case fr.Expires != "none":
			src = "expires-" + fr.Expires
		}
		desc := fmt.Sprintf("Cache-Control %q Expires %q force=%v default=%v", c.Fresh.CC, c.Fresh.Expires, c.Force, def)
		switch life.Kind {
		case "exact":
			if got.Before(t0.Add(life.D)) || got.After(t1.Add(life.D)) {
				return ev.Failf("lifetime.wrong:"+src, "%s: lifetime must be the configured default %v, got %v", desc, life.D, got.Sub(t0).Round(time.Millisecond))
			}
		case "atmost":
			limit := life.Until
			if limit.IsZero() {
				limit = t1.Add(life.D)
			}
			if got.After(limit) {
				return ev.Failf("lifetime.too-long:"+src, "%s: lifetime must end by %v, got %v (%v later)", desc, limit.Format(time.RFC3339), got.Format(time.RFC3339), got.Sub(limit).Round(time.Millisecond))
			}
		case "expired":
			if got.After(t1) {
				return ev.Failf("lifetime.too-long:"+src, "%s: an unparseable Expires counts as already expired, got a lifetime of %v", desc, got.Sub(t0).Round(time.Millisecond))
			}
		}
		return nil
	})

func drawLife(t *rapid.T) LifeCase {
	return LifeCase{Fresh: gen.DrawFresh(t, time.Now()), Force: rapid.IntRange(0, 3).Draw(t, "force") == 0,
		DefMs: rapid.SampledFrom([]int{50, 1000, 60000, 3600000}).Draw(t, "def")}
}

func TestLifetimeUnit(t *testing.T) {
	subLife.CheckSalt(t, 1, ev.N(60000, 3000000), drawLife)
}

// ---------------------------------------------------------------- (ii) labels, Age, ttl without waiting

type LabelCase struct {
	Backend   string    `json:"backend"`
	Transport string    `json:"transport"`
	Fresh     gen.Fresh `json:"fresh"`
	Ignore    bool      `json:"ignore_cache_control"`
	Force     bool      `json:"force_default_max_age"`
	DefSecs   int       `json:"default_max_age_s"`
	Gets      int       `json:"gets"`
	Via416    bool      `json:"via_416,omitempty"` // the entry is stored through the proxy's retry after an origin 416
}

var reTTL = regexp.MustCompile(`ttl=(-?\d+)`)

// checkLabels verifies X-Cache / Cache-Status agreement with what the origin log shows.
func checkLabels(id string, resp *px.Resp, entries []origin.Entry) *ev.Failure {
	xc := resp.Header.Get("X-Cache")
	cs := resp.Header.Get("Cache-Status")
	nOrigin := len(entries)
	if len(resp.Header.Values("X-Cache")) > 1 {
		return ev.Failf("label.duplicate-x-cache", "%s: X-Cache appears %d times: %q", id, len(resp.Header.Values("X-Cache")), resp.Header.Values("X-Cache"))
	}
	switch xc {
	case "HIT":
		if nOrigin != 0 {
			return ev.Failf("label.hit-but-origin-contacted", "%s: labelled HIT but the origin saw %d request(s) for it", id, nOrigin)
		}
		if !strings.Contains(cs, "hit") || strings.Contains(cs, "detail") || strings.Contains(cs, "fwd") {
			return ev.Failf("label.cache-status-disagrees", "%s: X-Cache HIT but Cache-Status %q", id, cs)
		}
	case "REVALIDATED":
		// the property constrains HIT only; REVALIDATED must at least mean that the origin was asked
		if nOrigin == 0 {
			return ev.Failf("label.revalidated-without-origin", "%s: labelled REVALIDATED but the origin was not contacted", id)
		}
		if !strings.Contains(cs, "revalidated") {
			return ev.Failf("label.cache-status-disagrees", "%s: X-Cache REVALIDATED but Cache-Status %q", id, cs)
		}
	case "MISS":
		if nOrigin == 0 {
			return ev.Failf("label.miss-without-origin", "%s: labelled MISS but the origin was not contacted", id)
		}
		if !strings.Contains(cs, "miss") {
			return ev.Failf("label.cache-status-disagrees", "%s: X-Cache MISS but Cache-Status %q", id, cs)
		}
	default:
		if resp.Status == 200 {
			return ev.Failf("label.missing", "%s: 200 without a recognisable X-Cache label (%q)", id, xc)
		}
	}
	if nOrigin == 0 && xc != "HIT" {
		return ev.Failf("label.not-hit-but-served-from-store", "%s: served without contacting the origin but labelled %q", id, xc)
	}
	return nil
}

var subLabel = ev.Register("labels-ttl-age",
	"a storable resource (generated freshness headers x cache_policy x default lifetime in seconds) fetched 2-4 times back to back; oracle: every response's X-Cache and Cache-Status agree with the origin log (HIT <=> origin not contacted), a HIT's ttl lies in [L-2, L] for an exact reference lifetime L and is <= L for an at-most lifetime, never negative, and Age is 0 or 1; non-trivial = at least one HIT was checked against a header-derived (non-default) lifetime; distinct by header set + flags",
	func(c LabelCase, o *ev.Obs) *ev.Failure {
		site := origin.NewSite()
		v := origin.Version{Ver: 1, Len: 300, ETag: `"e1"`, HonorRange: c.Via416, Bare416: true}
		for _, l := range c.Fresh.CC {
			v.Headers = append(v.Headers, origin.HV{K: "Cache-Control", V: l})
		}
		for _, l := range c.Fresh.Expires {
			v.Headers = append(v.Headers, origin.HV{K: "Expires", V: l})
		}
		if c.Fresh.Date != "" {
			v.Headers = append(v.Headers, origin.HV{K: "Date", V: c.Fresh.Date})
		}
		site.Set("/r", "r", v)
		org := origin.New(site.Handler())
		defer org.Close()
		def := time.Duration(c.DefSecs) * time.Second
		env := px.New(px.Opts{Backend: c.Backend, IgnoreCC: c.Ignore, ForceDefault: c.Force, DefaultMaxAge: def, Retry416: true})
		o.Classf("stored-via-416-retry:%v", c.Via416)
		defer env.Close()
		start := time.Now()
		began := start
		fr := ref.ReadFreshness(c.Fresh.CC, c.Fresh.Expires, start)
		life := fr.LifetimeOf(c.Force, def)
		o.Class("lifetime:" + life.Kind)
		o.Classf("storable:%s", fr.Storable(c.Ignore))
		hits := 0
		for i := 1; i <= c.Gets; i++ {
			id := fmt.Sprintf("g%d", i)
			req := px.Req{Method: "GET", Host: org.Addr(), Target: "/r", ReqID: id}
			if c.Via416 && i == 1 {
				// the entry gets stored through the retry path: the origin refuses this range with 416, the proxy
				// asks again without Range and stores the 200; its lifetime is that 200's, not the 416's
				req.Headers = []px.H{{K: "Range", V: "bytes=999999-"}}
			}
			resp, err := env.Via(c.Transport, req)
			if p := env.Panics(); p != "" {
				return ev.Failf("labels.handler-panic", "%s", p)
			}
			if c.Via416 && i == 1 && err == nil && resp.ReadErr == nil && (resp.Status == 416 || resp.Status == 200) {
				start = time.Now()
				continue
			}
			if err != nil || resp.ReadErr != nil {
				return ev.Failf("labels.no-response", "%s: %v / %v", id, err, resp)
			}
			if resp.Status != 200 || !bytes.Equal(resp.Body, origin.BodyOf("r", v)) {
				return ev.Failf("labels.wrong-answer", "%s: status %d, %d body bytes", id, resp.Status, len(resp.Body))
			}
			if f := checkLabels(id, resp, org.ByReqID(id)); f != nil {
				return f
			}
			if resp.Header.Get("X-Cache") == "REVALIDATED" {
				// a 304 renews the lifetime by the configured default (C06), whatever the headers said
				life, start = ref.Lifetime{Kind: "exact", D: def}, resp.T0
				o.Class("revalidated")
			}
			if resp.Header.Get("X-Cache") != "HIT" {
				continue
			}
			hits++
			elapsed := time.Since(start)
			if a := resp.Header.Get("Age"); a != "" {
				n, err := strconv.Atoi(a)
				// an answer generated before it was stored (old Date) is that much older than its time in the store
				var older time.Duration
				if d, derr := http.ParseTime(c.Fresh.Date); derr == nil && d.Before(began) {
					older = began.Sub(d) + time.Second
				}
				if err != nil || n < 0 || time.Duration(n)*time.Second > time.Since(began)+older+time.Second {
					return ev.Failf("label.age-inconsistent", "%s: Age %q on an entry stored %v ago", id, a, elapsed.Round(time.Millisecond))
				}
			} else {
				return ev.Failf("label.age-missing", "%s: HIT without an Age header", id)
			}
			m := reTTL.FindStringSubmatch(resp.Header.Get("Cache-Status"))
			if m == nil {
				return ev.Failf("label.ttl-missing", "%s: HIT without ttl in Cache-Status %q", id, resp.Header.Get("Cache-Status"))
			}
			ttl, _ := strconv.Atoi(m[1])
			if ttl < 0 {
				return ev.Failf("label.ttl-negative", "%s: ttl=%d", id, ttl)
			}
			switch life.Kind {
			case "exact":
				lo, hi := int((life.D-elapsed).Seconds())-1, int(life.D.Seconds())
				if ttl < lo || ttl > hi {
					return ev.Failf("label.ttl-inconsistent:exact", "%s: lifetime %v, stored %v ago, ttl=%d not in [%d,%d] (Cache-Control %q Expires %q force=%v)", id, life.D, elapsed.Round(time.Millisecond), ttl, lo, hi, c.Fresh.CC, c.Fresh.Expires, c.Force)
				}
			case "atmost":
				hi := int(life.D.Seconds())
				if !life.Until.IsZero() {
					hi = int(life.Until.Sub(start).Seconds()) + 1
				}
				if ttl > hi {
					return ev.Failf("label.ttl-inconsistent:atmost", "%s: lifetime at most %ds, ttl=%d (Cache-Control %q Expires %q)", id, hi, ttl, c.Fresh.CC, c.Fresh.Expires)
				}
			case "expired":
				return ev.Failf("label.hit-on-expired", "%s: HIT although the reference lifetime is already over (Expires %q)", id, c.Fresh.Expires)
			}
		}
		o.Classf("hits:%d", hits)
		o.NonTrivial = hits > 0 && life.Kind != "either" && !(life.Kind == "exact" && !c.Force && len(c.Fresh.CC)+len(c.Fresh.Expires) == 0)
		o.Canon = fmt.Sprintf("%s|%v|%v|%d|%s|%s", c.Fresh.Canon(), c.Ignore, c.Force, c.DefSecs, c.Backend, c.Transport)
		return nil
	})

func drawLabel(t *rapid.T) LabelCase {
	c := LabelCase{
		Backend:   rapid.SampledFrom([]string{"memory", "file"}).Draw(t, "backend"),
		Transport: rapid.SampledFrom([]string{"plain", "plain", "tunnel"}).Draw(t, "transport"),
		Fresh:     gen.DrawFresh(t, time.Now()),
		Ignore:    rapid.IntRange(0, 2).Draw(t, "ignore") == 0,
		Force:     rapid.IntRange(0, 2).Draw(t, "force") == 0,
		DefSecs:   rapid.SampledFrom([]int{30, 600, 3600, 86400}).Draw(t, "def"),
		Gets:      rapid.IntRange(2, 4).Draw(t, "gets"),
	}
	c.Via416 = rapid.IntRange(0, 3).Draw(t, "via416") == 0
	if c.Via416 && c.Gets < 3 {
		c.Gets = 3
	}
	if rapid.IntRange(0, 2).Draw(t, "simple") == 0 {
		c.Fresh = rapid.SampledFrom([]gen.Fresh{{}, {CC: []string{"max-age=60"}}, {CC: []string{"max-age=5"}}, {CC: []string{"public, max-age=3600"}},
			{CC: []string{"MAX-AGE=120"}}, {CC: []string{"public", "max-age=100"}}}).Draw(t, "simple-fresh")
	}
	return c
}

func TestLabelsTTLAge(t *testing.T) {
	subLabel.CheckSalt(t, 2, ev.N(800, 80000), drawLabel)
}

// ---------------------------------------------------------------- (iv) Age after a real wait

type AgeCase struct {
	Backend   string `json:"backend"`
	Transport string `json:"transport"`
	OriginAge []int  `json:"origin_age"` // per resource: Age header the origin sends (-1 = none)
	WaitMs    int    `json:"wait_ms"`
}

var subAge = ev.Register("age-after-wait",
	"2-8 resources (origin sends Date, optionally its own Age: N) are stored, the harness waits 1.2-2.4 s, then requests them again (HITs, lifetime one hour); oracle: Age = origin Age + resident time within +-1 s (+1 s for the Date rounding), ttl = 3600 - resident within +-2; non-trivial = an origin Age was given or the wait exceeded 2 s; distinct by case",
	func(c AgeCase, o *ev.Obs) *ev.Failure {
		site := origin.NewSite()
		for i, a := range c.OriginAge {
			v := origin.Version{Ver: 1, Len: 100 + i, ETag: fmt.Sprintf(`"a%d"`, i)}
			if a >= 0 {
				v.Headers = append(v.Headers, origin.HV{K: "Age", V: strconv.Itoa(a)})
			}
			site.Set(fmt.Sprintf("/a%d", i), fmt.Sprintf("a%d", i), v)
		}
		org := origin.New(site.Handler())
		defer org.Close()
		env := px.New(px.Opts{Backend: c.Backend, DefaultMaxAge: time.Hour})
		defer env.Close()
		stored := make([]time.Time, len(c.OriginAge))
		for i := range c.OriginAge {
			r, err := env.Via(c.Transport, px.Req{Method: "GET", Host: org.Addr(), Target: fmt.Sprintf("/a%d", i), ReqID: fmt.Sprintf("s%d", i)})
			if err != nil || r.Status != 200 {
				return ev.Failf("age.harness", "store: %v", err)
			}
			stored[i] = r.T1
		}
		time.Sleep(time.Duration(c.WaitMs) * time.Millisecond)
		o.NonTrivial = c.WaitMs >= 2000
		for i, a := range c.OriginAge {
			if a >= 0 {
				o.NonTrivial = true
			}
			r, err := env.Via(c.Transport, px.Req{Method: "GET", Host: org.Addr(), Target: fmt.Sprintf("/a%d", i), ReqID: fmt.Sprintf("h%d", i)})
			if err != nil || r.Status != 200 || r.Header.Get("X-Cache") != "HIT" {
				return ev.Failf("age.not-a-hit", "resource %d after %d ms: %v / %v", i, c.WaitMs, err, r)
			}
			resident := r.T0.Sub(stored[i]).Seconds()
			base := 0
			if a > 0 {
				base = a
			}
			age, aerr := strconv.Atoi(r.Header.Get("Age"))
			lo, hi := float64(base)+resident-1.2, float64(base)+resident+2.2
			if aerr != nil || float64(age) < lo || float64(age) > hi {
				return ev.Failf("label.age-inconsistent:after-wait", "resource %d: origin Age %d, resident %.2f s: Age header %q not in [%.1f, %.1f]", i, a, resident, r.Header.Get("Age"), lo, hi)
			}
			m := reTTL.FindStringSubmatch(r.Header.Get("Cache-Status"))
			if m == nil {
				return ev.Failf("label.ttl-missing", "Cache-Status %q", r.Header.Get("Cache-Status"))
			}
			ttl, _ := strconv.Atoi(m[1])
			if float64(ttl) < 3600-resident-2.2 || float64(ttl) > 3600-resident+1.2 {
				return ev.Failf("label.ttl-inconsistent:after-wait", "resource %d: lifetime 3600 s, resident %.2f s, ttl=%d", i, resident, ttl)
			}
		}
		return nil
	})

func TestAgeAfterWait(t *testing.T) {
	subAge.CheckSalt(t, 4, ev.N(4, 200), func(t *rapid.T) AgeCase {
		c := AgeCase{Backend: rapid.SampledFrom([]string{"memory", "file"}).Draw(t, "backend"), Transport: rapid.SampledFrom([]string{"plain", "tunnel"}).Draw(t, "transport"),
			WaitMs: rapid.SampledFrom([]int{1200, 2100, 2400}).Draw(t, "wait")}
		for i := rapid.IntRange(2, 8).Draw(t, "n"); i > 0; i-- {
			c.OriginAge = append(c.OriginAge, rapid.SampledFrom([]int{-1, -1, 0, 1, 30, 100000}).Draw(t, "age"))
		}
		return c
	})
}

// ---------------------------------------------------------------- (v) the configured default / force switch of a RUNNING proxy

var subPolicy = ev.Register("lifetime-follows-runtime-policy",
	"1-6 accepted run-time changes of ignore_cache_control / force_default_max_age / default_max_age on a RUNNING proxy; after each change a fresh no-store resource and a fresh max-age=50 resource are requested twice; oracle: the lifetime (ttl) of the newly stored response is the max-age, or the *current* configured default when it is forced; non-trivial = >= 2 changes; distinct by change sequence",
	scen.PolicyLive)

func TestLifetimeFollowsRuntimePolicy(t *testing.T) {
	subPolicy.CheckSalt(t, 5, ev.N(40, 2000), scen.DrawPolicy)
}
