package c06

// A revalidation answered by a 200 with an empty body, then the origin goes back to the stored version
// and confirms it with a 304: what is kept in service is the stored body, whole. (The file backend refuses
// to store an empty body; whatever it does with that refusal must not damage the entry it already has.)

import (
	"bytes"
	"fmt"
	"testing"
	"time"

	"pgregory.net/rapid"

	"verifharness/internal/ev"
	"verifharness/internal/origin"
	"verifharness/internal/px"
)

type Empty200 struct {
	Backend   string `json:"backend"`
	Transport string `json:"transport"`
	LMs       int    `json:"lifetime_ms"`
	Len       int    `json:"len"`
	Empties   int    `json:"empties"` // how many requests are answered with the empty version before the origin goes back
}

var subEmpty200 = ev.Register("empty-200-then-304",
	"a stored version v1 expires; the origin answers the revalidation with a 200 and an empty body (another tag) for 1-3 requests, then serves v1 again and confirms it with a 304 (or sends it whole); oracle: the empty answers are relayed as 200 with an empty body, and the request after the origin went back gets 200 with v1's complete body - never a cut or empty one; non-trivial = file backend; distinct by case",
	func(c Empty200, o *ev.Obs) *ev.Failure {
		site := origin.NewSite()
		org := origin.New(site.Handler())
		defer org.Close()
		L := time.Duration(c.LMs) * time.Millisecond
		env := px.New(px.Opts{Backend: c.Backend, DefaultMaxAge: L})
		defer env.Close()
		v1 := origin.Version{Ver: 1, Len: c.Len, ETag: `"e-1"`}
		empty := origin.Version{Ver: 2, Len: 0, ETag: `"e-2"`}
		site.Set("/e", "e2", v1)
		get := func(id string) (*px.Resp, *ev.Failure) {
			r, err := env.Via(c.Transport, px.Req{Method: "GET", Host: org.Addr(), Target: "/e", ReqID: id})
			if err != nil {
				return nil, ev.Failf("empty200.no-response", "%s: %v", id, err)
			}
			return r, nil
		}
		if r, f := get("store"); f != nil || r.Status != 200 {
			return ev.Failf("empty200.harness", "storing request failed")
		}
		time.Sleep(L + L/2 + 40*time.Millisecond)
		site.Set("/e", "e2", empty)
		for i := 0; i < c.Empties; i++ {
			r, f := get(fmt.Sprintf("empty%d", i))
			if f != nil {
				return f
			}
			if r.Status != 200 || len(r.Body) != 0 || r.ReadErr != nil {
				return ev.Failf("reval.200-body:empty", "request %d while the origin serves an empty version: status %d, %d body bytes, read error %v", i, r.Status, len(r.Body), r.ReadErr)
			}
			time.Sleep(L + L/2 + 40*time.Millisecond)
		}
		site.Set("/e", "e2", v1)
		o.Class("backend:" + c.Backend)
		o.NonTrivial = c.Backend == "file"
		for i := 0; i < 2; i++ {
			r, f := get(fmt.Sprintf("back%d", i))
			if f != nil {
				return f
			}
			if r.Status != 200 || r.ReadErr != nil || !bytes.Equal(r.Body, origin.BodyOf("e2", v1)) {
				return ev.Failf("reval.304-body:after-empty-200", "%s backend: the origin serves v1 again (%d bytes, tag %s): request %d got status %d with %d body bytes, Content-Length %q, read error %v, X-Cache %q", c.Backend, c.Len, v1.ETag, i, r.Status, len(r.Body), r.Header.Get("Content-Length"), r.ReadErr, r.Header.Get("X-Cache"))
			}
		}
		return nil
	})

func TestEmpty200Then304(t *testing.T) {
	subEmpty200.CheckSalt(t, 41, ev.N(12, 600), func(t *rapid.T) Empty200 {
		return Empty200{
			Backend:   rapid.SampledFrom([]string{"file", "file", "memory"}).Draw(t, "backend"),
			Transport: rapid.SampledFrom([]string{"plain", "tunnel"}).Draw(t, "transport"),
			LMs:       rapid.SampledFrom([]int{100, 150}).Draw(t, "L"),
			Len:       rapid.SampledFrom([]int{16, 1000, 70000}).Draw(t, "len"),
			Empties:   rapid.IntRange(1, 3).Draw(t, "empties"),
		}
	})
}
