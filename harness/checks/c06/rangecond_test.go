package c06

// A Range request shares the plain GET's entry and its revalidation path. Client conditionals that come
// with it are the client's business with *its* copy: they must not reach the origin in place of the
// stored validators, and an origin answer to them must never make the proxy's stale entry fresh again.

import (
	"bytes"
	"fmt"
	"testing"
	"time"

	"pgregory.net/rapid"

	"verifharness/internal/ev"
	"verifharness/internal/origin"
	"verifharness/internal/px"
)

type RangeCond struct {
	Backend    string `json:"backend"`
	Transport  string `json:"transport"`
	LMs        int    `json:"lifetime_ms"`
	Stale      bool   `json:"stale"`       // the stored entry has expired and the origin has a newer version when the ranged request arrives
	Validator  string `json:"validator"`   // marker | current: the client's conditional names a value of its own, or the origin's current version
	Cond       string `json:"cond"`        // inm | ims | both
	Range      string `json:"range"`       // the Range header value
	HonorRange bool   `json:"honor_range"` // the origin serves ranges itself (206) or ignores Range (200)
}

var subRangeCond = ev.Register("range-get-with-client-conditionals",
	"a resource is stored (v1), optionally expires while the origin moves to v2, then a GET with a Range and client conditionals (If-None-Match / If-Modified-Since naming a marker value or the origin's current version) arrives, then a plain GET; oracle on the origin log: the client's conditional values never reach the origin (only the stored validators do); on the client: the ranged answer is a slice (or the whole) of a version that may be served - v2 once the entry was stale -, never a 304, and the plain GET afterwards never gets v1 once v1 was stale; non-trivial = the entry was stale; distinct by case",
	func(c RangeCond, o *ev.Obs) *ev.Failure {
		site := origin.NewSite()
		org := origin.New(site.Handler())
		defer org.Close()
		L := time.Duration(c.LMs) * time.Millisecond
		env := px.New(px.Opts{Backend: c.Backend, DefaultMaxAge: L})
		defer env.Close()
		t1 := time.Date(2021, 5, 1, 10, 0, 0, 0, time.UTC)
		mk := func(ver int) origin.Version {
			return origin.Version{Ver: ver, Len: 400 + ver, ETag: fmt.Sprintf(`"rc-%d"`, ver), LastMod: t1.Add(time.Duration(ver) * time.Hour).Format("Mon, 02 Jan 2006 15:04:05 GMT"), HonorRange: c.HonorRange}
		}
		v1, v2 := mk(1), mk(2)
		site.Set("/r", "rc", v1)
		if r, err := env.Via(c.Transport, px.Req{Method: "GET", Host: org.Addr(), Target: "/r", ReqID: "store"}); err != nil || r.Status != 200 {
			return ev.Failf("rangecond.harness", "storing request failed: %v", err)
		}
		cur := v1
		if c.Stale {
			time.Sleep(L + L/2 + 40*time.Millisecond)
			site.Set("/r", "rc", v2)
			cur = v2
		}
		// the client's conditionals
		cinm, cims := marker+`-tag"`, "Fri, 01 Jan 1999 00:00:00 GMT"
		cinm = `"` + cinm
		if c.Validator == "current" {
			cinm, cims = cur.ETag, cur.LastMod
		}
		hs := []px.H{{K: "Range", V: c.Range}}
		if c.Cond == "inm" || c.Cond == "both" {
			hs = append(hs, px.H{K: "If-None-Match", V: cinm})
		}
		if c.Cond == "ims" || c.Cond == "both" {
			hs = append(hs, px.H{K: "If-Modified-Since", V: cims})
		}
		resp, err := env.Via(c.Transport, px.Req{Method: "GET", Host: org.Addr(), Target: "/r", ReqID: "ranged", Headers: hs})
		if err != nil || resp.ReadErr != nil {
			return ev.Failf("rangecond.no-response", "ranged request: %v", err)
		}
		o.NonTrivial = c.Stale
		o.Classf("stale:%v", c.Stale)
		o.Class("validator:" + c.Validator)
		desc := fmt.Sprintf("entry v1 (%s), stale=%v, origin now at v%d; GET with Range %q and client conditionals %s (If-None-Match %s / If-Modified-Since %s)", v1.ETag, c.Stale, cur.Ver, c.Range, c.Cond, cinm, cims)
		for _, e := range org.ByReqID("ranged") {
			for _, got := range e.Header["If-None-Match"] {
				if got != v1.ETag {
					return ev.Failf("reval.client-conditional-forwarded:if-none-match:range", "%s: the origin received If-None-Match %q - the stored validator is %s", desc, got, v1.ETag)
				}
			}
			for _, got := range e.Header["If-Modified-Since"] {
				if !sameInstant(got, v1.LastMod) {
					return ev.Failf("reval.client-conditional-forwarded:if-modified-since:range", "%s: the origin received If-Modified-Since %q - the stored Last-Modified is %s", desc, got, v1.LastMod)
				}
			}
		}
		if resp.Status == 304 {
			return ev.Failf("reval.client-got-304:range", "%s: the client received a 304", desc)
		}
		okBody := func(body []byte, v origin.Version) bool {
			full := origin.BodyOf("rc", v)
			return bytes.Equal(body, full) || (len(body) > 0 && len(body) < len(full) && bytes.Contains(full, body))
		}
		if resp.Status == 200 || resp.Status == 206 {
			switch {
			case c.Stale && !okBody(resp.Body, v2):
				return ev.Failf("reval.stale-served:range", "%s: the %d answer (%d bytes) is not from v2 although v1 had expired and the origin has v2", desc, resp.Status, len(resp.Body))
			case !c.Stale && !okBody(resp.Body, v1):
				return ev.Failf("rangecond.wrong-body", "%s: the %d answer (%d bytes) is not from v1", desc, resp.Status, len(resp.Body))
			}
		}
		after, err := env.Via(c.Transport, px.Req{Method: "GET", Host: org.Addr(), Target: "/r", ReqID: "after"})
		if err != nil || after.ReadErr != nil {
			return ev.Failf("rangecond.no-response", "plain request afterwards: %v", err)
		}
		if c.Stale && (after.Status != 200 || !bytes.Equal(after.Body, origin.BodyOf("rc", v2))) {
			return ev.Failf("reval.stale-made-fresh:range", "%s: the plain GET afterwards got status %d, X-Cache %q and not v2's body - the expired v1 is in service again", desc, after.Status, after.Header.Get("X-Cache"))
		}
		return nil
	})

func TestRangeGetWithClientConditionals(t *testing.T) {
	subRangeCond.CheckSalt(t, 7, ev.N(40, 3000), func(t *rapid.T) RangeCond {
		return RangeCond{
			Backend:    rapid.SampledFrom([]string{"memory", "file"}).Draw(t, "backend"),
			Transport:  rapid.SampledFrom([]string{"plain", "plain", "tunnel"}).Draw(t, "transport"),
			LMs:        rapid.SampledFrom([]int{120, 180}).Draw(t, "L"),
			Stale:      rapid.IntRange(0, 3).Draw(t, "stale") != 0,
			Validator:  rapid.SampledFrom([]string{"marker", "current", "current"}).Draw(t, "validator"),
			Cond:       rapid.SampledFrom([]string{"inm", "ims", "both"}).Draw(t, "cond"),
			Range:      rapid.SampledFrom([]string{"bytes=0-9", "bytes=10-19", "bytes=-5", "bytes=390-", "bytes=0-"}).Draw(t, "range"),
			HonorRange: rapid.Bool().Draw(t, "honor"),
		}
	})
}
