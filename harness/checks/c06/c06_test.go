package c06

import (
	"bytes"
	"fmt"
	"net/http"
	"strings"
	"sync"
	"testing"
	"time"

	"pgregory.net/rapid"

	"verifharness/internal/ev"
	"verifharness/internal/origin"
	"verifharness/internal/px"
)

func TestMain(m *testing.M)   { ev.Main(m, "C06") }
func TestReplay(t *testing.T) { ev.ReplayWitnesses(t) }

// Op is one step of a revalidation history.
type Op struct {
	Kind   string   `json:"kind"`             // get | expire | bump | mode
	Conds  []string `json:"conds,omitempty"`  // get: client conditional kinds
	Scheme string   `json:"scheme,omitempty"` // bump: etag | weak | lm | both | none | sticky | sticky-weak | sticky+lm (tag unchanged across versions)
	Mode   string   `json:"mode,omitempty"`   // mode: standard | always200 | cond500 | all500 | all404 | cond403 | len304 | typed304
}

type Case struct {
	Backend   string `json:"backend"`
	Transport string `json:"transport"`
	LMs       int    `json:"lifetime_ms"`
	Histories [][]Op `json:"histories"`
}

const marker = "VERIFMARK"

// client conditional header lines by kind; every value carries the marker
func condLines(kind string, n int) []px.H {
	switch kind {
	case "inm":
		return []px.H{{K: "If-None-Match", V: fmt.Sprintf(`"%s-inm-%d"`, marker, n)}}
	case "inm2":
		return []px.H{{K: "If-None-Match", V: fmt.Sprintf(`"%s-a-%d"`, marker, n)}, {K: "If-None-Match", V: fmt.Sprintf(`"%s-b-%d"`, marker, n)}}
	case "ims":
		return []px.H{{K: "If-Modified-Since", V: "Fri, 01 Jan 1999 00:00:00 GMT"}}
	case "ims-bad":
		return []px.H{{K: "If-Modified-Since", V: marker + "-not-a-date"}}
	case "im":
		return []px.H{{K: "If-Match", V: fmt.Sprintf(`"%s-im-%d"`, marker, n)}}
	case "ius":
		return []px.H{{K: "If-Unmodified-Since", V: "Sat, 02 Jan 1999 00:00:00 GMT"}}
	case "ius-bad":
		return []px.H{{K: "If-Unmodified-Since", V: marker + "-yesterday"}}
	case "ims-lower":
		return []px.H{{K: "if-modified-since", V: "Sun, 03 Jan 1999 00:00:00 GMT"}}
	}
	return nil
}

func clientValueLeaked(h map[string][]string) (string, string) {
	for _, k := range []string{"If-None-Match", "If-Modified-Since", "If-Match", "If-Unmodified-Since"} {
		for _, v := range h[k] {
			if strings.Contains(v, marker) || strings.Contains(v, "1999") {
				return k, v
			}
		}
	}
	return "", ""
}

type stored struct {
	ver int
	v   origin.Version
}

type hres struct {
	fail                         *ev.Failure
	n304, n200repl, nOther, nHit int
	expiries                     int
	ambiguous                    int
}

// sameInstant: the revalidation names the stored Last-Modified instant (the proxy may respell the date).
func sameInstant(got, stored string) bool {
	if got == stored {
		return true
	}
	a, err1 := http.ParseTime(got)
	b, err2 := http.ParseTime(stored)
	return err1 == nil && err2 == nil && a.Equal(b)
}

func runHistory(env *px.Env, org *origin.Origin, site *origin.Site, c Case, idx int, ops []Op) (res hres) {
	path, id := fmt.Sprintf("/r%d", idx), fmt.Sprintf("r%d", idx)
	L := time.Duration(c.LMs) * time.Millisecond
	ver := 1
	scheme, mode := "etag", "standard"
	versions := map[int]origin.Version{}
	install := func() {
		v := origin.Version{Ver: ver, Len: 150 + 7*ver}
		switch scheme {
		case "etag":
			v.ETag = fmt.Sprintf(`"%s-%d"`, id, ver)
		case "weak":
			v.ETag = fmt.Sprintf(`W/"%s-%d"`, id, ver)
		case "lm":
			v.LastMod = time.Date(2020, 1, 1, 0, 0, ver, 0, time.UTC).Format("Mon, 02 Jan 2006 15:04:05 GMT")
		case "lm850":
			// the two obsolete date forms every HTTP recipient must read (RFC 9110 5.6.7): the same instant, written differently
			v.LastMod = time.Date(2020, 1, 1, 0, 0, ver, 0, time.UTC).Format("Monday, 02-Jan-06 15:04:05 GMT")
		case "lmasc":
			v.LastMod = time.Date(2020, 1, 1, 0, 0, ver, 0, time.UTC).Format(time.ANSIC)
		case "sticky":
			// the tag does not change with the content (a coarse strong tag): only an origin that answers the
			// revalidation with a 200 tells the proxy that the body is new
			v.ETag = fmt.Sprintf(`"%s-sticky"`, id)
		case "sticky-weak":
			v.ETag = fmt.Sprintf(`W/"%s-sticky"`, id)
		case "sticky+lm":
			v.ETag = fmt.Sprintf(`W/"%s-sticky"`, id)
			v.LastMod = time.Date(2020, 1, 1, 0, 0, ver, 0, time.UTC).Format("Mon, 02 Jan 2006 15:04:05 GMT")
		case "both":
			v.ETag = fmt.Sprintf(`"%s-%d"`, id, ver)
			v.LastMod = time.Date(2020, 1, 1, 0, 0, ver, 0, time.UTC).Format("Mon, 02 Jan 2006 15:04:05 GMT")
		}
		switch mode {
		case "always200":
			v.NoCond = true
		case "cond500":
			v.CondStatus = 500
		case "cond403":
			v.CondStatus = 403
		case "all500":
			v.Status = 500
		case "all404":
			v.Status = 404
		case "len304":
			// the 304 describes itself, not the stored body
			v.Raw304 = []origin.HV{{K: "Content-Length", V: "0"}}
		case "othertag304":
			// the origin confirms with a 304 that names another tag than the one it was asked about (a tag that
			// changed while the content did not, a weak/strong respelling): still a 304 - the stored body stays
			v.Raw304 = []origin.HV{{K: "ETag", V: fmt.Sprintf(`"%s-renamed-%d"`, id, ver)}}
		case "typed304":
			v.Raw304 = []origin.HV{{K: "Content-Length", V: "7"}, {K: "Content-Type", V: "text/x-not-the-stored-one"}}
		}
		versions[ver] = v
		site.Set(path, id, v)
	}
	install()
	var st *stored
	fresh := false
	var storeT1, storeT0 time.Time
	oldVers := map[int]bool{} // versions replaced by a 200: must never be served again
	n := 0
	for _, op := range ops {
		switch op.Kind {
		case "expire":
			time.Sleep(L + L/2 + 40*time.Millisecond)
			if st != nil {
				fresh = false
				res.expiries++
			}
		case "bump":
			ver++
			scheme = op.Scheme
			install()
		case "mode":
			mode = op.Mode
			install()
		case "get":
			n++
			rid := fmt.Sprintf("%s-g%d", id, n)
			var hs []px.H
			for _, k := range op.Conds {
				hs = append(hs, condLines(k, n)...)
			}
			resp, err := env.Via(c.Transport, px.Req{Method: "GET", Host: org.Addr(), Target: path, ReqID: rid, Headers: hs})
			if err != nil || resp.ReadErr != nil {
				res.fail = ev.Failf("reval.no-response", "%s: %v", rid, err)
				return
			}
			entries := org.ByReqID(rid)
			// ---- nothing the client sent as a conditional may reach the origin
			for _, e := range entries {
				if k, v := clientValueLeaked(e.Header); k != "" {
					res.fail = ev.Failf("reval.client-conditional-forwarded:"+strings.ToLower(k)+":"+strings.Join(op.Conds, "+"), "%s: the client's %s: %s reached the origin (client conditionals %v)", rid, k, v, op.Conds)
					return
				}
			}
			// the proxy starts the lifetime when the origin's header arrives, some time between the start (T0) and
			// the end (T1) of the exchange that stored the entry: certainly still fresh only measured from T0
			sureFresh := st != nil && fresh && time.Since(storeT0) < L-10*time.Millisecond
			maybeFresh := st != nil && fresh && L > 0 // a default lifetime of zero or less: nothing is ever fresh, every request asks the origin
			switch {
			case sureFresh:
				res.nHit++
				if len(entries) != 0 {
					res.fail = ev.Failf("reval.fresh-entry-refetched", "%s: entry renewed/stored %v ago (lifetime %v) but the origin was contacted", rid, time.Since(storeT1).Round(time.Millisecond), L)
					return
				}
				if resp.Status != 200 || !bytes.Equal(resp.Body, origin.BodyOf(id, st.v)) {
					res.fail = ev.Failf("reval.hit-wrong-body", "%s: HIT is not the stored version %d (status %d)", rid, st.ver, resp.Status)
					return
				}
				continue
			case maybeFresh && len(entries) == 0:
				res.ambiguous++
				if resp.Status != 200 || !bytes.Equal(resp.Body, origin.BodyOf(id, st.v)) {
					res.fail = ev.Failf("reval.hit-wrong-body", "%s: HIT is not the stored version %d", rid, st.ver)
					return
				}
				continue
			case maybeFresh:
				res.ambiguous++
			}
			if len(entries) == 0 {
				res.fail = ev.Failf("reval.stale-served-without-origin", "%s: no fresh entry exists (stored=%v) but the origin was not contacted; status %d X-Cache %q", rid, st != nil, resp.Status, resp.Header.Get("X-Cache"))
				return
			}
			first := entries[0]
			inm, ims := first.Header["If-None-Match"], first.Header["If-Modified-Since"]
			if st == nil {
				if len(inm) != 0 || len(ims) != 0 {
					res.fail = ev.Failf("reval.conditional-without-entry", "%s: nothing is stored but the origin got If-None-Match %q If-Modified-Since %q", rid, inm, ims)
					return
				}
			} else if !maybeFresh {
				// a revalidation: validators must be the stored ones
				if st.v.ETag != "" {
					if len(inm) != 1 || inm[0] != st.v.ETag {
						res.fail = ev.Failf("reval.wrong-if-none-match", "%s: stored ETag %s, revalidation carried If-None-Match %q", rid, st.v.ETag, inm)
						return
					}
				} else if len(inm) != 0 {
					res.fail = ev.Failf("reval.invented-if-none-match", "%s: stored response had no ETag, revalidation carried If-None-Match %q", rid, inm)
					return
				}
				if st.v.LastMod != "" && (len(ims) != 1 || !sameInstant(ims[0], st.v.LastMod)) {
					res.fail = ev.Failf("reval.wrong-if-modified-since", "%s: stored Last-Modified %s, revalidation carried If-Modified-Since %q", rid, st.v.LastMod, ims)
					return
				}
			}
			// ---- the client's own conditionals never match anything, so a 304 must never reach it, and every
			// origin request after the first one of this exchange is the proxy's unconditional fallback fetch
			if resp.Status == 304 {
				res.fail = ev.Failf("reval.client-got-304", "%s: the client (conditionals %v, none of which can match) received a bodiless 304; origin answers in this exchange: %v", rid, op.Conds, entryStatuses(entries))
				return
			}
			for _, e := range entries[1:] {
				if len(e.Header["If-None-Match"]) != 0 || len(e.Header["If-Modified-Since"]) != 0 {
					res.fail = ev.Failf("reval.fallback-fetch-conditional", "%s: after the revalidation ended with %d the proxy fetched again for this client, but with If-None-Match %q If-Modified-Since %q although the client asked unconditionally", rid, first.Status, e.Header["If-None-Match"], e.Header["If-Modified-Since"])
					return
				}
			}
			// ---- outcome
			statuses := map[int]bool{}
			for _, e := range entries {
				statuses[e.Status] = true
			}
			switch first.Status {
			case 304:
				if st == nil {
					res.fail = ev.Failf("reval.harness", "%s: origin answered 304 without a stored entry", rid)
					return
				}
				res.n304++
				if resp.Status != 200 || !bytes.Equal(resp.Body, origin.BodyOf(id, st.v)) {
					res.fail = ev.Failf("reval.304-body", "%s: origin said 304 but the client got status %d with a body that is not stored version %d", rid, resp.Status, st.ver)
					return
				}
				if xc := resp.Header.Get("X-Cache"); xc != "REVALIDATED" {
					res.fail = ev.Failf("reval.304-label", "%s: 304 revalidation labelled %q", rid, xc)
					return
				}
				fresh, storeT1, storeT0 = true, resp.T1, resp.T0
			case 200:
				nv := versions[first.Ver]
				if st != nil && st.ver != first.Ver {
					oldVers[st.ver] = true
					res.n200repl++
				}
				if resp.Status != 200 || !bytes.Equal(resp.Body, origin.BodyOf(id, nv)) {
					res.fail = ev.Failf("reval.200-body", "%s: origin sent version %d but the client got status %d and a different body", rid, first.Ver, resp.Status)
					return
				}
				st = &stored{ver: first.Ver, v: nv}
				fresh, storeT1, storeT0 = true, resp.T1, resp.T0
			default:
				res.nOther++
				if !statuses[resp.Status] {
					res.fail = ev.Failf(fmt.Sprintf("reval.other-not-relayed:%d", first.Status), "%s: origin answered %v, client got %d", rid, keys(statuses), resp.Status)
					return
				}
				if resp.Status == 200 {
					// the unconditional refetch after a failed conditional request produced a body
					last := entries[len(entries)-1]
					if !bytes.Equal(resp.Body, origin.BodyOf(id, versions[last.Ver])) {
						res.fail = ev.Failf("reval.other-body", "%s: relayed 200 body is not version %d", rid, last.Ver)
						return
					}
				}
				// not stored: whatever was stored stays stale
				fresh = false
			}
			// ---- a replaced body is never served again
			if resp.Status == 200 {
				for ov := range oldVers {
					if st != nil && ov != st.ver && bytes.Equal(resp.Body, origin.BodyOf(id, versions[ov])) {
						res.fail = ev.Failf("reval.old-body-served", "%s: version %d was replaced by a 200 earlier but is served again", rid, ov)
						return
					}
				}
			}
		}
	}
	return
}

func entryStatuses(es []origin.Entry) []int {
	var out []int
	for _, e := range es {
		out = append(out, e.Status)
	}
	return out
}

func keys(m map[int]bool) []int {
	var out []int
	for k := range m {
		out = append(out, k)
	}
	return out
}

var sub = ev.Register("revalidation-histories",
	"6-10 concurrent per-resource histories (default lifetime 120/180 ms, or zero / negative: then nothing is ever fresh) of get(with client conditionals: If-None-Match, If-Modified-Since, If-Match, If-Unmodified-Since, well-formed / malformed / repeated, all carrying marker values) / expire(sleep 1.5 L) / origin bump with validator scheme in {ETag, weak ETag, Last-Modified (IMF-fixdate, RFC 850 or asctime form), both, none, a strong or weak tag that stays the same while the content changes (with or without a changing Last-Modified)} / origin mode in {standard, always 200, 500 or 403 on conditionals, 500/404 always, 304 written by hand with a Content-Length / Content-Type of its own}; model = stored version + its validators; oracle on the origin log: revalidations carry exactly the stored validators, no client marker ever reaches the origin; on the client: 304 keeps the stored body (REVALIDATED) and the next request within the default lifetime is a HIT, 200 replaces it and the old body is never served again, any other status is relayed and the next request asks the origin again; non-trivial = history with >= 2 expiries including a 304 and a 200 replacement; distinct by history",
	func(c Case, o *ev.Obs) *ev.Failure {
		site := origin.NewSite()
		org := origin.New(site.Handler())
		defer org.Close()
		env := px.New(px.Opts{Backend: c.Backend, DefaultMaxAge: time.Duration(c.LMs) * time.Millisecond, DefaultZero: c.LMs == 0})
		defer env.Close()
		results := make([]hres, len(c.Histories))
		var wg sync.WaitGroup
		for i, h := range c.Histories {
			wg.Add(1)
			go func(i int, h []Op) {
				defer wg.Done()
				results[i] = runHistory(env, org, site, c, i, h)
			}(i, h)
		}
		wg.Wait()
		if p := env.Panics(); p != "" {
			return ev.Failf("reval.handler-panic", "%s", p)
		}
		var fail *ev.Failure
		nt := 0
		t304, t200, tother, thit, tamb := 0, 0, 0, 0, 0
		for _, r := range results {
			if r.fail != nil && fail == nil {
				fail = r.fail
			}
			if r.expiries >= 2 && r.n304 > 0 && r.n200repl > 0 {
				nt++
			}
			t304 += r.n304
			t200 += r.n200repl
			tother += r.nOther
			thit += r.nHit
			tamb += r.ambiguous
		}
		o.Classf("revalidated-304:%v", t304 > 0)
		o.Classf("replaced-200:%v", t200 > 0)
		o.Classf("other-status:%v", tother > 0)
		o.Classf("hits-after-renewal:%v", thit > 0)
		o.Classf("ambiguous:%v", tamb > 0)
		o.Class("transport:" + c.Transport)
		o.NonTrivial = nt > 0
		return fail
	})

var condKinds = []string{"inm", "inm2", "ims", "ims-bad", "im", "ius", "ius-bad", "ims-lower"}

func drawCase(t *rapid.T) Case {
	c := Case{
		Backend:   rapid.SampledFrom([]string{"memory", "file"}).Draw(t, "backend"),
		Transport: rapid.SampledFrom([]string{"plain", "plain", "tunnel"}).Draw(t, "transport"),
		LMs:       rapid.SampledFrom([]int{120, 120, 180, 180, 0, -1000}).Draw(t, "L"),
	}
	nh := rapid.IntRange(6, 10).Draw(t, "histories")
	for i := 0; i < nh; i++ {
		ops := []Op{{Kind: "get"}}
		drawGet := func() Op {
			g := Op{Kind: "get"}
			if rapid.Bool().Draw(t, "with-conds") {
				g.Conds = rapid.SliceOfNDistinct(rapid.SampledFrom(condKinds), 1, 3, rapid.ID[string]).Draw(t, "conds")
			}
			return g
		}
		ops[0] = drawGet()
		steps := rapid.IntRange(3, 6).Draw(t, "steps")
		for j := 0; j < steps; j++ {
			switch rapid.IntRange(0, 9).Draw(t, "step") {
			case 0, 1, 2:
				ops = append(ops, Op{Kind: "expire"})
			case 3, 4:
				ops = append(ops, Op{Kind: "bump", Scheme: rapid.SampledFrom([]string{"etag", "weak", "lm", "both", "none", "lm850", "lmasc"}).Draw(t, "scheme")}, Op{Kind: "expire"})
			case 5:
				ops = append(ops, Op{Kind: "mode", Mode: rapid.SampledFrom([]string{"standard", "standard", "always200", "cond500", "cond403", "all500", "all404", "len304", "typed304", "othertag304"}).Draw(t, "mode")})
			case 6:
				ops = append(ops, Op{Kind: "bump", Scheme: rapid.SampledFrom([]string{"etag", "weak", "lm", "both", "none", "lm850", "lmasc"}).Draw(t, "scheme")})
			case 7:
				// content changes under an unchanged tag, at an origin that ignores conditionals: store, expire, change, ask
				sk := rapid.SampledFrom([]string{"sticky", "sticky-weak", "sticky+lm"}).Draw(t, "sticky")
				ops = append(ops, Op{Kind: "mode", Mode: "always200"}, Op{Kind: "bump", Scheme: sk}, drawGet(), Op{Kind: "expire"}, Op{Kind: "bump", Scheme: sk}, drawGet(), drawGet(), Op{Kind: "mode", Mode: "standard"})
			}
			ops = append(ops, drawGet())
		}
		c.Histories = append(c.Histories, ops)
	}
	return c
}

func TestRevalidationHistories(t *testing.T) {
	sub.CheckSalt(t, 1, ev.N(25, 3000), drawCase)
}
