package c10

import (
	"bytes"
	"fmt"
	"net/http"
	"regexp"
	"sort"
	"strconv"
	"strings"
	"testing"
	"time"

	"pgregory.net/rapid"

	"verifharness/internal/ev"
	"verifharness/internal/origin"
	"verifharness/internal/px"
)

func TestMain(m *testing.M)   { ev.Main(m, "C10") }
func TestReplay(t *testing.T) { ev.ReplayWitnesses(t) }

// Res is the static script of one origin path.
type Res struct {
	Status     int  `json:"status"`
	Len        int  `json:"len"`
	Chunked    bool `json:"chunked"`
	Cacheable  bool `json:"cacheable"`
	HonorRange bool `json:"honor_range"`
	ETag       bool `json:"etag"`
	Cookies    int  `json:"cookies"`
}

type Rq struct {
	Method string `json:"method"`
	Path   int    `json:"path"`
	Range  string `json:"range,omitempty"`
	// BadHost: the request names a Host that net/http's request reader accepts but that cannot be turned into
	// an upstream URL, and carries a body that is itself a well-formed request. Whatever the proxy answers
	// (the exchange itself is not compared), the exchanges after it must be unaffected.
	BadHost string `json:"bad_host,omitempty"`
	// Odd: the request is for a resource whose origin answers with a status line net/http's client accepts and
	// its server cannot send (000): the proxy answers with an error of its own. Like the refused exchanges it is
	// not compared; what follows it on the tunnel is
	Odd bool `json:"odd_status,omitempty"`
	// GetBody: a GET that carries a (pointless but legal) request body; whether it is answered from the store or
	// by the origin, its body belongs to this exchange and must not be read as the start of the next one
	GetBody bool `json:"get_body,omitempty"`
}

type Case struct {
	Backend   string `json:"backend"`
	Resources []Res  `json:"resources"`
	Requests  []Rq   `json:"requests"`
}

type obs struct {
	status int
	body   []byte
	header http.Header
	cl     int64
	chunk  bool
	err    string
}

var reTTL = regexp.MustCompile(`; ttl=\d+`)

// transport- and time-dependent fields excluded from the cross-run comparison
var skipCompare = map[string]bool{"Date": true, "Content-Length": true, "Transfer-Encoding": true, "Connection": true, "Age": true, "Last-Modified": true}

func headerSig(h http.Header) string {
	var keys []string
	for k := range h {
		if !skipCompare[k] {
			keys = append(keys, k)
		}
	}
	sort.Strings(keys)
	var b strings.Builder
	for _, k := range keys {
		for _, v := range h[k] {
			if k == "Cache-Status" {
				v = reTTL.ReplaceAllString(v, "")
			}
			fmt.Fprintf(&b, "%s: %s\n", k, v)
		}
	}
	return b.String()
}

func runSeq(c Case, mode string) ([]obs, []string, string) {
	org := origin.NewRaw(func(r *http.Request, _ []byte, e *origin.Entry) origin.RawResponse {
		if r.URL.Path == "/odd" {
			return origin.RawResponse{Raw: []byte("HTTP/1.1 000 Zero\r\nContent-Length: 300\r\nETag: \"odd\"\r\n\r\n" + strings.Repeat("z", 300))}
		}
		var idx int
		fmt.Sscanf(r.URL.Path, "/p%d", &idx)
		if idx < 0 || idx >= len(c.Resources) {
			return origin.RawResponse{Status: 404, Body: []byte("nope")}
		}
		rs := c.Resources[idx]
		id := fmt.Sprintf("p%d", idx)
		body := origin.Content(id, 1, rs.Len)
		hs := []origin.HV{{K: "Date", V: "Mon, 02 Jan 2006 15:04:05 GMT"}, {K: "Content-Type", V: "text/x-" + id},
			{K: "X-Only-" + id, V: "1"}}
		for i := 0; i < rs.Cookies; i++ {
			hs = append(hs, origin.HV{K: "Set-Cookie", V: fmt.Sprintf("%s-c%d=1", id, i)})
		}
		if rs.Cacheable {
			hs = append(hs, origin.HV{K: "Cache-Control", V: "max-age=3600"})
		} else {
			hs = append(hs, origin.HV{K: "Cache-Control", V: "no-store"})
		}
		if rs.ETag {
			hs = append(hs, origin.HV{K: "ETag", V: `"` + id + `"`}, origin.HV{K: "Last-Modified", V: "Sun, 01 Jan 2006 00:00:00 GMT"})
		}
		status := rs.Status
		noBody := r.Method == "HEAD"
		if status == 200 && rs.HonorRange && r.Method == "GET" {
			if rg := r.Header.Get("Range"); rg != "" {
				var a, b int
				if n, _ := fmt.Sscanf(rg, "bytes=%d-%d", &a, &b); n == 2 && a <= b && b < len(body) {
					hs = append(hs, origin.HV{K: "Content-Range", V: fmt.Sprintf("bytes %d-%d/%d", a, b, len(body))})
					return origin.RawResponse{Status: 206, Headers: hs, Body: body[a : b+1], NoBody: noBody}
				}
				hs = append(hs, origin.HV{K: "Content-Range", V: fmt.Sprintf("bytes */%d", len(body))})
				return origin.RawResponse{Status: 416, Headers: hs, Body: []byte("unsatisfiable"), NoBody: noBody}
			}
		}
		if status == 204 {
			return origin.RawResponse{Status: 204, Headers: hs, NoBody: true, NoCL: true}
		}
		return origin.RawResponse{Status: status, Headers: hs, Body: body, Chunked: rs.Chunked, NoBody: noBody}
	})
	defer org.Close()
	env := px.New(px.Opts{Backend: c.Backend})
	defer env.Close()
	var tun *px.Tunnel
	defer func() {
		if tun != nil {
			tun.Close()
		}
	}()
	var out []obs
	retried := map[string]int{}
	skipIDs := map[string]bool{}
	for i, rq := range c.Requests {
		if rq.GetBody || rq.Odd {
			skipIDs[fmt.Sprintf("q%d", i)] = true
		}
		req := px.Req{Method: rq.Method, Host: org.Addr(), Target: fmt.Sprintf("/p%d", rq.Path), ReqID: fmt.Sprintf("q%d", i)}
		if rq.Range != "" {
			req.Headers = append(req.Headers, px.H{K: "Range", V: rq.Range})
		}
		if rq.GetBody && rq.Method == "GET" && rq.Range == "" {
			req.Body = "hello"
		}
		if rq.Method == "POST" {
			req.Body = "post-body"
			if rs := c.Resources[rq.Path]; rs.Status != 204 {
				req.WantLen = rs.Len
			}
		}
		if rq.Odd {
			req.Target = "/odd"
		}
		if (rq.BadHost != "" || rq.Odd) && mode != "one-tunnel" {
			out = append(out, obs{err: "bad-host exchange"}) // only meaningful on a kept-alive tunnel
			continue
		}
		if rq.BadHost != "" {
			req.Host = rq.BadHost
			if rq.Method == "POST" {
				req.Body = fmt.Sprintf("GET /p0 HTTP/1.1\r\nHost: %s\r\nX-Verif-Req: smuggled\r\n\r\n", org.Addr())
			} else {
				// the proxy's own error answer to a HEAD has no body either; one that has leaves it in the tunnel
				req.Body = ""
			}
		}
		var resp *px.Resp
		var err error
		switch mode {
		case "one-tunnel":
			if tun == nil {
				if tun, err = env.Connect(org.Addr()); err != nil {
					out = append(out, obs{err: "connect: " + err.Error()})
					return out, nil, env.Panics()
				}
			}
			resp, err = tun.Do(req)
		case "tunnel-per-request":
			resp, err = env.Via("tunnel", req)
		default:
			resp, err = env.Plain(req)
		}
		if rq.Odd && (err != nil || resp.ReadErr != nil) {
			// whatever the proxy makes of such an origin answer, what it sends is a response: complete, framed by its own length
			out = append(out, obs{err: fmt.Sprintf("odd-status exchange failed: %v %v", err, func() error {
				if resp != nil {
					return resp.ReadErr
				}
				return nil
			}())})
			if tun != nil {
				tun.Close()
				tun = nil
			}
			continue
		}
		if rq.BadHost != "" || rq.Odd {
			// not compared; a proxy may also close the tunnel after refusing the request
			out = append(out, obs{err: "bad-host exchange"})
			if mode == "one-tunnel" && (err != nil || resp.ReadErr != nil || resp.Header.Get("Connection") == "close") {
				tun.Close()
				tun = nil
			}
			continue
		}
		if err != nil && mode == "one-tunnel" && i > 0 && (c.Requests[i-1].BadHost != "" || c.Requests[i-1].Odd) && tun != nil && !strings.Contains(err.Error(), "malformed") {
			// the proxy closed the tunnel after the refused exchange without saying so: one fresh tunnel is allowed
			// (bytes that do not parse as a response are not a closed tunnel: they are what the refusal left behind)
			tun.Close()
			if tun, err = env.Connect(org.Addr()); err == nil {
				resp, err = tun.Do(req)
			}
		}
		if mode == "one-tunnel" && rq.Method == "POST" && req.WantLen > 0 && (err != nil || resp.ReadErr != nil || len(resp.Body) < req.WantLen) {
			// the body hand-over artefact (px.Plain) on a kept-alive tunnel cannot be repeated in place: the
			// case is set aside, and counted
			return nil, nil, "@artefact"
		}
		if err != nil {
			out = append(out, obs{err: err.Error()})
			if mode == "one-tunnel" {
				return out, nil, env.Panics() // the tunnel is unusable after a framing error
			}
			continue
		}
		if resp.Retried > 0 {
			retried[req.ReqID] += resp.Retried
		}
		ob := obs{status: resp.Status, body: resp.Body, header: resp.Header, cl: resp.CL, chunk: resp.Chunked}
		if resp.ReadErr != nil {
			ob.err = "body: " + resp.ReadErr.Error()
		}
		out = append(out, ob)
		if resp.ReadErr != nil && mode == "one-tunnel" {
			return out, nil, env.Panics()
		}
	}
	var olog []string
	for _, e := range org.Log() {
		// an exchange px had to repeat (net/http body hand-over artefact, see px.Plain) reached the origin more
		// than once under the same id: count it once
		if skipIDs[e.ReqID] && e.Method == "GET" {
			continue // a GET carrying a body: how often it is fetched is the recorded C08 finding, not this check's subject
		}
		if n := retried[e.ReqID]; n > 0 {
			retried[e.ReqID] = n - 1
			continue
		}
		olog = append(olog, fmt.Sprintf("%s %s range=%q cond=%v", e.Method, e.Target, e.Header.Get("Range"), e.Header.Get("If-None-Match") != ""))
	}
	return out, olog, env.Panics()
}

var sub = ev.Register("tunnel-differential",
	"a generated sequence of 2-12 requests (GET/HEAD/POST, requests naming an unusable Host whose body is itself a well-formed request and requests whose origin answers with the status line 000 (neither compared, but what follows them is), Range, hits and misses, statuses 200/204/404/500, sized and chunked bodies, per-resource unique headers and cookies) replayed against three fresh proxies with identically scripted origins: (a) one kept-alive CONNECT tunnel, (b) one tunnel per request, (c) plain proxying; oracle: per request status, body, X-Cache and end-to-end header multiset are equal across the three runs and so are the origin logs; in (a) no response carries another resource's X-Only header or cookie, Content-Range appears only on 206/416, X-Cache exactly once, Content-Length equals the body; non-trivial = >= 2 exchanges of different status or framing on the one tunnel; distinct by sequence",
	func(c Case, o *ev.Obs) *ev.Failure {
		a, la, pa := runSeq(c, "one-tunnel")
		b, lb, pb := runSeq(c, "tunnel-per-request")
		p, lp, pp := runSeq(c, "plain")
		for try := 0; pa == "@artefact" && try < 2; try++ {
			o.Class("repeated-after-upstream-cut")
			a, la, pa = runSeq(c, "one-tunnel")
		}
		if pa == "@artefact" {
			return ev.Failf("tunnel.exchange-failed:post-cut-persistently", "one-tunnel: the response to a POST was cut short in three runs of the same sequence")
		}
		for _, pn := range []string{pa, pb, pp} {
			if pn != "" {
				return ev.Failf("tunnel.handler-panic", "%s", pn)
			}
		}
		shapes := map[string]bool{}
		for _, x := range p {
			shapes[fmt.Sprintf("%d/%v", x.status, x.chunk)] = true
		}
		o.Classf("requests:%d", len(c.Requests))
		o.Classf("shapes:%d", len(shapes))
		o.NonTrivial = len(c.Requests) >= 2 && len(shapes) >= 2
		// absolute checks on the kept-alive tunnel
		for i, x := range a {
			rq := c.Requests[i]
			if rq.BadHost != "" {
				o.Class("bad-host-exchange-on-tunnel")
				continue
			}
			if rq.Odd {
				o.Class("odd-status-exchange-on-tunnel")
				if strings.HasPrefix(x.err, "odd-status exchange failed") {
					return ev.Failf("tunnel.exchange-failed:odd-status", "one-tunnel: request %d (origin answers with the status line 000 and a 300-byte body): the proxy's answer is not a complete response: %s", i, x.err)
				}
				continue
			}
			if rq.GetBody && rq.Method == "GET" && rq.Range == "" {
				o.Class("get-with-body-on-tunnel")
				continue
			}
			if x.err != "" {
				return ev.Failf("tunnel.exchange-failed", "one-tunnel: request %d (%s /p%d %s) failed: %s (status %d, %d body bytes)", i, rq.Method, rq.Path, rq.Range, x.err, x.status, len(x.body))
			}
			for k, vs := range x.header {
				if strings.HasPrefix(k, "X-Only-") && k != fmt.Sprintf("X-Only-P%d", rq.Path) {
					return ev.Failf("tunnel.leak:header", "one-tunnel: response %d (/p%d) carries %s from an earlier exchange", i, rq.Path, k)
				}
				if k == "Set-Cookie" {
					for _, v := range vs {
						if !strings.HasPrefix(v, fmt.Sprintf("p%d-", rq.Path)) {
							return ev.Failf("tunnel.leak:cookie", "one-tunnel: response %d (/p%d) carries cookie %q of another resource", i, rq.Path, v)
						}
					}
				}
			}
			if cr := x.header.Get("Content-Range"); cr != "" && x.status != 206 && x.status != 416 {
				return ev.Failf("tunnel.leak:content-range", "one-tunnel: response %d has status %d and Content-Range %q", i, x.status, cr)
			}
			if n := len(x.header.Values("X-Cache")); n > 1 {
				return ev.Failf("tunnel.leak:x-cache", "one-tunnel: response %d has X-Cache %q", i, x.header.Values("X-Cache"))
			}
			if cl := x.header.Get("Content-Length"); cl != "" && rq.Method != "HEAD" && cl != strconv.Itoa(len(x.body)) {
				return ev.Failf("tunnel.leak:content-length", "one-tunnel: response %d announces Content-Length %s but carries %d bytes", i, cl, len(x.body))
			}
		}
		// differential
		cmp := func(name string, x []obs, lx []string) *ev.Failure {
			if len(x) != len(p) {
				return ev.Failf("tunnel.diff:count:"+name, "%s produced %d responses, plain %d", name, len(x), len(p))
			}
			for i := range p {
				rq := c.Requests[i]
				if rq.BadHost != "" || rq.Odd || (rq.GetBody && rq.Method == "GET" && rq.Range == "") {
					continue
				}
				if x[i].err != "" || p[i].err != "" {
					if x[i].err != p[i].err {
						return ev.Failf("tunnel.diff:error:"+name, "request %d (%s /p%d): %s error %q, plain error %q", i, rq.Method, rq.Path, name, x[i].err, p[i].err)
					}
					continue
				}
				if x[i].status != p[i].status {
					return ev.Failf("tunnel.diff:status:"+name, "request %d (%s /p%d %s): %s status %d, plain %d", i, rq.Method, rq.Path, rq.Range, name, x[i].status, p[i].status)
				}
				xb, pb := x[i].body, p[i].body
				if p[i].status >= 400 && p[i].header.Get("X-Content-Type-Options") == "nosniff" {
					// a proxy-made error page: http.Error appends a newline, the tunnel responder does not (cosmetic)
					xb, pb = bytes.TrimRight(xb, "\n"), bytes.TrimRight(pb, "\n")
				}
				if !bytes.Equal(xb, pb) {
					return ev.Failf("tunnel.diff:body:"+name, "request %d (%s /p%d %s): %s body %d bytes, plain %d bytes", i, rq.Method, rq.Path, rq.Range, name, len(x[i].body), len(p[i].body))
				}
				if hx, hp := headerSig(x[i].header), headerSig(p[i].header); hx != hp {
					return ev.Failf("tunnel.diff:headers:"+name, "request %d (%s /p%d %s, status %d): headers differ\n--- %s\n%s--- plain\n%s", i, rq.Method, rq.Path, rq.Range, p[i].status, name, hx, hp)
				}
			}
			if strings.Join(lx, "\n") != strings.Join(lp, "\n") {
				return ev.Failf("tunnel.diff:origin-log:"+name, "origin saw different requests:\n--- %s\n%s\n--- plain\n%s", name, strings.Join(lx, "\n"), strings.Join(lp, "\n"))
			}
			return nil
		}
		if f := cmp("one-tunnel", a, la); f != nil {
			return f
		}
		return cmp("tunnel-per-request", b, lb)
	})

func drawCase(t *rapid.T) Case {
	c := Case{Backend: rapid.SampledFrom([]string{"memory", "file"}).Draw(t, "backend")}
	nr := rapid.IntRange(2, 5).Draw(t, "resources")
	for i := 0; i < nr; i++ {
		c.Resources = append(c.Resources, Res{
			Status:     rapid.SampledFrom([]int{200, 200, 200, 200, 204, 404, 500}).Draw(t, "status"),
			Len:        rapid.SampledFrom([]int{1, 5, 40, 700, 5000}).Draw(t, "len"),
			Chunked:    rapid.IntRange(0, 2).Draw(t, "chunked") == 0,
			Cacheable:  rapid.IntRange(0, 3).Draw(t, "cacheable") != 0,
			HonorRange: rapid.Bool().Draw(t, "honor"),
			ETag:       rapid.Bool().Draw(t, "etag"),
			Cookies:    rapid.IntRange(0, 2).Draw(t, "cookies"),
		})
	}
	n := rapid.IntRange(2, 12).Draw(t, "requests")
	for i := 0; i < n; i++ {
		rq := Rq{Method: rapid.SampledFrom([]string{"GET", "GET", "GET", "GET", "HEAD", "POST"}).Draw(t, "method"), Path: rapid.IntRange(0, nr-1).Draw(t, "path")}
		if rq.Method == "GET" && rapid.IntRange(0, 3).Draw(t, "ranged") == 0 {
			l := c.Resources[rq.Path].Len
			a := rapid.IntRange(0, l).Draw(t, "a")
			b := rapid.IntRange(a, l+2).Draw(t, "b")
			rq.Range = fmt.Sprintf("bytes=%d-%d", a, b)
		}
		if rq.Method == "GET" && rq.Range == "" && rapid.IntRange(0, 7).Draw(t, "get-body") == 0 {
			rq.GetBody = true
		}
		if rapid.IntRange(0, 14).Draw(t, "odd-status") == 0 {
			rq = Rq{Method: "GET", Path: rq.Path, Odd: true}
		}
		if rapid.IntRange(0, 11).Draw(t, "bad-host") == 0 {
			rq = Rq{Method: rapid.SampledFrom([]string{"POST", "POST", "HEAD", "GET"}).Draw(t, "bad-host-method"), Path: rq.Path, BadHost: rapid.SampledFrom([]string{"bad host", "example.com:abc", "a%zzb", "[::1"}).Draw(t, "host")}
		}
		c.Requests = append(c.Requests, rq)
	}
	return c
}

func TestTunnelDifferential(t *testing.T) {
	// a sequence takes well under a second; one that does not come back at all (an exchange the proxy never finishes
	// can keep the harness's own shutdown of that proxy waiting) is reported with the proxy's parked goroutines
	sub.Timeout = 3 * time.Minute
	sub.CheckSalt(t, 1, ev.N(250, 40000), drawCase)
}
