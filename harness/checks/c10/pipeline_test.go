package c10

// A client may send its next requests without waiting for the answers (pipelining): on a tunnel the
// proxy then finds them in the same read as the tail of the first one. Each must be answered, in order,
// exactly as if it had been sent alone.

import (
	"bytes"
	"fmt"
	"testing"

	"pgregory.net/rapid"

	"verifharness/internal/ev"
	"verifharness/internal/origin"
	"verifharness/internal/px"
)

type Pipe struct {
	Backend string `json:"backend"`
	Lens    []int  `json:"lens"`   // resource i has Lens[i] bytes
	Paths   []int  `json:"paths"`  // the requests, in order
	Heads   []bool `json:"heads"`  // request j is a HEAD
	Groups  []int  `json:"groups"` // how many consecutive requests go out in one write (used in turn)
}

var subPipe = ev.Register("tunnel-pipelining",
	"3-8 GET/HEAD requests for 1-3 cacheable resources on one kept-alive tunnel, written in groups of 1-4 per Write (the later ones of a group arrive with the first), compared with the same sequence sent one request at a time through a second proxy; oracle: every request is answered, in order, with the status and body it gets when sent alone; non-trivial = a group of at least two requests; distinct by case",
	func(c Pipe, o *ev.Obs) *ev.Failure {
		run := func(piped bool) ([]*px.Resp, *ev.Failure) {
			site := origin.NewSite()
			for i, l := range c.Lens {
				site.Set(fmt.Sprintf("/p%d", i), fmt.Sprintf("pipe%d", i), origin.Version{Ver: 1, Len: l, ETag: fmt.Sprintf(`"pipe-%d"`, i), Headers: []origin.HV{{K: "Cache-Control", V: "max-age=600"}}})
			}
			org := origin.New(site.Handler())
			defer org.Close()
			env := px.New(px.Opts{Backend: c.Backend})
			defer env.Close()
			tun, err := env.Connect(org.Addr())
			if err != nil {
				return nil, ev.Failf("pipe.harness", "connect: %v", err)
			}
			defer tun.Close()
			var reqs []px.Req
			for j, p := range c.Paths {
				m := "GET"
				if c.Heads[j] {
					m = "HEAD"
				}
				reqs = append(reqs, px.Req{Method: m, Host: org.Addr(), Target: fmt.Sprintf("/p%d", p%len(c.Lens)), ReqID: fmt.Sprintf("q%d", j)})
			}
			var out []*px.Resp
			for g, i := 0, 0; i < len(reqs); g++ {
				n := 1
				if piped {
					n = c.Groups[g%len(c.Groups)]
				}
				if i+n > len(reqs) {
					n = len(reqs) - i
				}
				rs, err := tun.DoPipelined(reqs[i : i+n])
				out = append(out, rs...)
				if err != nil {
					if piped {
						return out, ev.Failf("tunnel.pipelined-request-lost", "requests %d..%d were written together; %d of them were answered, then: %v (sequence paths %v, heads %v, groups %v)", i, i+n-1, len(rs), err, c.Paths, c.Heads, c.Groups)
					}
					return out, ev.Failf("pipe.harness", "sequential run: %v", err)
				}
				i += n
			}
			if p := env.Panics(); p != "" {
				return out, ev.Failf("tunnel.handler-panic", "%s", p)
			}
			return out, nil
		}
		alone, f := run(false)
		if f != nil {
			return f
		}
		piped, f := run(true)
		if f != nil {
			return f
		}
		o.NonTrivial = false
		for _, g := range c.Groups {
			if g > 1 {
				o.NonTrivial = true
			}
		}
		for j := range alone {
			a, b := alone[j], piped[j]
			if a.Status != b.Status || !bytes.Equal(a.Body, b.Body) || a.Header.Get("ETag") != b.Header.Get("ETag") {
				return ev.Failf("tunnel.pipelined-answer-differs", "request %d (path %d, head %v): alone -> %d with %d bytes (ETag %s), pipelined -> %d with %d bytes (ETag %s); groups %v", j, c.Paths[j], c.Heads[j], a.Status, len(a.Body), a.Header.Get("ETag"), b.Status, len(b.Body), b.Header.Get("ETag"), c.Groups)
			}
		}
		return nil
	})

func TestTunnelPipelining(t *testing.T) {
	subPipe.CheckSalt(t, 13, ev.N(60, 4000), func(t *rapid.T) Pipe {
		c := Pipe{Backend: rapid.SampledFrom([]string{"memory", "file"}).Draw(t, "backend"),
			Lens:   rapid.SliceOfN(rapid.SampledFrom([]int{0, 1, 10, 500, 3000, 70000}), 1, 3).Draw(t, "lens"),
			Groups: rapid.SliceOfN(rapid.IntRange(1, 4), 1, 4).Draw(t, "groups")}
		n := rapid.IntRange(3, 8).Draw(t, "n")
		for j := 0; j < n; j++ {
			c.Paths = append(c.Paths, rapid.IntRange(0, 2).Draw(t, "path"))
			c.Heads = append(c.Heads, rapid.IntRange(0, 3).Draw(t, "head") == 0)
		}
		return c
	})
}
