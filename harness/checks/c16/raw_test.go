package c16

import (
	"bufio"
	"bytes"
	"crypto/tls"
	"fmt"
	"io"
	"net"
	"net/http"
	"regexp"
	"strings"
	"testing"
	"time"
	"verifharness/internal/netx"

	"pgregory.net/rapid"
	"reservoir/metrics"

	"verifharness/internal/ev"
	"verifharness/internal/origin"
	"verifharness/internal/px"
)

// Raw is one byte-level exchange: arbitrary request bytes from the client, arbitrary response
// bytes from the origin.
type Raw struct {
	Transport string `json:"transport"` // plain | tunnel
	Line      string `json:"line"`      // request line (for tunnel: sent inside the tunnel)
	HostHdr   string `json:"host_hdr"`  // "@" = the origin's address
	Headers   string `json:"headers"`   // raw header block
	Body      string `json:"body"`
	Origin    string `json:"origin"`  // raw response bytes from the origin ("" = a plain 200)
	Connect   string `json:"connect"` // tunnel: CONNECT target ("@" = origin address)
	Prime     bool   `json:"prime"`   // store the resource first with a plain GET
}

var subRaw = ev.Register("raw-exchanges",
	"byte-level exchanges through a real proxy: generated request lines (methods, absolute / origin / asterisk / authority forms, versions), Host values, header blocks (Range, If-Range, Cache-Control, conditionals, duplicates, oversized and malformed fields, bodies with Content-Length or chunked framing) plain and inside a CONNECT tunnel (valid and invalid CONNECT targets), against a raw-socket origin returning generated status lines, header sets and framings (malformed, truncated, duplicated Content-Length, bad chunks); oracle: the handler never panics, and every request that reached the proxy handler is answered by a parseable status line and header block before the connection ends; a body may only fail to satisfy its framing when the origin's own answer was malformed or cut short; non-trivial = the request reached the proxy handler; distinct by exchange",
	func(c Raw, o *ev.Obs) *ev.Failure {
		goodOrigin := c.Origin == "" || c.Origin == "@416-unless-plain@"
		org := origin.NewRaw(func(r *http.Request, _ []byte, e *origin.Entry) origin.RawResponse {
			if c.Origin == "" || r.Header.Get("X-Verif-Req") == "prime" {
				return origin.RawResponse{Status: 200, Headers: []origin.HV{{K: "Cache-Control", V: "max-age=60"}, {K: "ETag", V: `"x"`}}, Body: []byte("0123456789")}
			}
			if c.Origin == "@416-unless-plain@" {
				// range-hostile origin: 416 to every Range request, a cacheable 200 to the retry without Range
				if r.Header.Get("Range") != "" {
					return origin.RawResponse{Status: 416, Headers: []origin.HV{{K: "Content-Range", V: "bytes */10"}}, Body: []byte("nope")}
				}
				return origin.RawResponse{Status: 200, Headers: []origin.HV{{K: "Cache-Control", V: "max-age=60"}}, Body: []byte("0123456789")}
			}
			return origin.RawResponse{Raw: []byte(c.Origin)}
		})
		defer org.Close()
		env := px.New(px.Opts{RetryInvalid: strings.Contains(c.Headers, "retry"), Retry416: true})
		defer env.Close()
		// "@" is the origin's address, "~" the proxy's own
		sub := func(s string) string {
			return strings.ReplaceAll(strings.ReplaceAll(s, "@", org.Addr()), "~", env.Addr())
		}
		// the target is the proxy itself: named in the request line, or in Host when the line names no authority
		selfAddressed := strings.Contains(c.Line, "~") || (strings.Contains(c.HostHdr, "~") && !hasAuthority.MatchString(c.Line))
		if c.Prime {
			env.Plain(px.Req{Method: "GET", Host: org.Addr(), Target: "/r", ReqID: "prime"})
		}
		before := metrics.Global.Requests.HTTPProxyRequests.Get() + metrics.Global.Requests.HTTPSProxyRequests.Get()
		conn, err := netx.Dial(env.Addr(), 3*time.Second)
		if err != nil {
			return ev.Failf("raw.harness", "%v", err)
		}
		defer conn.Close()
		conn.SetDeadline(time.Now().Add(4 * time.Second))
		var rw io.ReadWriter = conn
		method := strings.SplitN(c.Line, " ", 2)[0]
		if c.Transport == "tunnel" {
			fmt.Fprintf(conn, "CONNECT %s HTTP/1.1\r\nHost: %s\r\n\r\n", sub(c.Connect), sub(c.Connect))
			br := bufio.NewReader(conn)
			resp, err := http.ReadResponse(br, &http.Request{Method: "CONNECT"})
			reached := metrics.Global.Requests.HTTPSProxyRequests.Get()+metrics.Global.Requests.HTTPProxyRequests.Get() > before
			o.Class("connect:" + map[bool]string{true: "reached-handler", false: "refused-by-net/http"}[reached])
			if p := env.Panics(); p != "" {
				return ev.Failf("raw.handler-panic:connect", "CONNECT %q: %s", c.Connect, p)
			}
			if err != nil {
				if reached {
					return ev.Failf("raw.unanswered:connect", "CONNECT %q reached the proxy but no well-formed response came back: %v", c.Connect, err)
				}
				return nil
			}
			if resp.StatusCode != 200 {
				o.NonTrivial = reached
				return nil // refused with a well-formed response
			}
			_, pool, _ := px.TestCA()
			host, _, _ := net.SplitHostPort(sub(c.Connect))
			tc := tls.Client(&bufConn{Conn: conn, br: br}, &tls.Config{RootCAs: pool, ServerName: host, InsecureSkipVerify: host == ""})
			if err := tc.Handshake(); err != nil {
				return nil // C11's subject
			}
			rw = tc
			before = metrics.Global.Requests.HTTPProxyRequests.Get()
		}
		var req bytes.Buffer
		fmt.Fprintf(&req, "%s\r\n", sub(c.Line))
		if c.HostHdr != "-" {
			fmt.Fprintf(&req, "Host: %s\r\n", sub(c.HostHdr))
		}
		req.WriteString(sub(c.Headers))
		req.WriteString("X-Verif-Req: raw\r\n\r\n")
		req.WriteString(c.Body)
		rw.Write(req.Bytes())
		// The client has nothing more to send. Saying so at once (half-close) would make net/http cancel the
		// request's context before the origin's answer is in, and the origin-dependent paths would hardly ever
		// run; never saying so would leave a handler that waits for an announced but incomplete body hanging.
		// So: wait 300 ms for the answer, then half-close and keep waiting.
		br := bufio.NewReader(rw)
		type rr struct {
			resp *http.Response
			err  error
		}
		got := make(chan rr, 1)
		go func() {
			resp, err := http.ReadResponse(br, &http.Request{Method: method})
			got <- rr{resp, err}
		}()
		var res rr
		select {
		case res = <-got:
			o.Class("answered-before-half-close")
		case <-time.After(300 * time.Millisecond):
			if x, ok := rw.(interface{ CloseWrite() error }); ok {
				x.CloseWrite()
			}
			res = <-got
			o.Class("answered-after-half-close")
		}
		resp, rerr := res.resp, res.err
		time.Sleep(time.Millisecond)
		reached := metrics.Global.Requests.HTTPProxyRequests.Get() > before
		o.Classf("reached-handler:%v", reached)
		o.Class("transport:" + c.Transport)
		o.Classf("good-origin:%v", goodOrigin)
		o.NonTrivial = reached
		desc := fmt.Sprintf("%s request %q host %q headers %q body %q; origin answer %q", c.Transport, c.Line, c.HostHdr, clip(c.Headers), clip(c.Body), clip(c.Origin))
		if p := env.Panics(); p != "" {
			return ev.Failf("raw.handler-panic", "%s :: %s", desc, p)
		}
		if rerr != nil {
			if reached && selfAddressed {
				return ev.Failf("raw.unanswered:self-addressed", "%s :: the request names the proxy's own address; it reached the handler but no response came back: %v", desc, rerr)
			}
			if reached {
				return ev.Failf("raw.unanswered", "%s :: the request reached the proxy handler but no well-formed response came back: %v", desc, rerr)
			}
			return nil // net/http itself refused the bytes without an answer (e.g. an unparseable request line)
		}
		o.Classf("status:%dxx", resp.StatusCode/100)
		_, berr := io.ReadAll(resp.Body)
		carriesBody := c.Body != "" || strings.Contains(c.Headers, "Content-Length") || strings.Contains(c.Headers, "Transfer-Encoding")
		if berr != nil && goodOrigin && reached && !carriesBody { // with a request body net/http itself occasionally cuts the relay short (see px.Plain)
			return ev.Failf("raw.bad-framing", "%s :: status %d, the origin answered well-formed but the body does not satisfy its framing: %v", desc, resp.StatusCode, berr)
		}
		return nil
	})

var hasAuthority = regexp.MustCompile(`://[^/\s]`)

type bufConn struct {
	net.Conn
	br *bufio.Reader
}

func (b *bufConn) Read(p []byte) (int, error) { return b.br.Read(p) }

var reqLines = []string{"GET http://@/r HTTP/1.1", "GET http://@/r HTTP/1.0", "GET /r HTTP/1.1", "HEAD http://@/r HTTP/1.1", "POST http://@/r HTTP/1.1", "OPTIONS * HTTP/1.1", "OPTIONS http://@/r HTTP/1.1",
	"FOO http://@/r HTTP/1.1", "get http://@/r HTTP/1.1", "GET http://@/r HTTP/2.0", "GET http://@/r HTTP/1.9", "GET http://@ HTTP/1.1", "GET http:// HTTP/1.1", "GET http://@/%zz HTTP/1.1", "GET http://@/a b HTTP/1.1",
	"GET  http://@/r HTTP/1.1", "GET http://@/r", "GET", "", "GET http://@/r?a|b HTTP/1.1", "GET http://@/../../r HTTP/1.1", "GET http://user:pw@@/r HTTP/1.1", "GET ftp://@/r HTTP/1.1", "GET http://@:99999/r HTTP/1.1",
	"GET http://[::1/r HTTP/1.1", "PATCH http://@/r HTTP/1.1", "DELETE http://@/r HTTP/1.1", "TRACE http://@/r HTTP/1.1", "CONNECT @ HTTP/1.1", "GET http://" + strings.Repeat("a", 300) + ".test/ HTTP/1.1"}

var hdrBlocks = []string{"", "Range: bytes=0-3\r\n", "Range: bytes=\r\n", "Range: bytes=5\r\n", "Range: bytes=-\r\nX-mode: retry\r\n", "Range: bytes=50-60\r\nX-mode: retry\r\n", "Range: bytes=0-1\r\nRange: bytes=2-3\r\n",
	"Range: bytes=18446744073709551616-\r\n", "If-Range: \r\nRange: bytes=0-1\r\n", "If-Range: \"x\"\r\nRange: bytes=0-1\r\n", "If-Range: Mon, 02 Jan 2006 15:04:05 GMT\r\nRange: bytes=0-1\r\n", "If-Range: garbage\r\nRange: bytes=9-9\r\n",
	"Cache-Control: \r\n", "Cache-Control: max-age=abc\r\n", "Cache-Control: max-age=\"\r\n", "Cache-Control: no-cache=\", max-age=\"5\r\n", "If-Modified-Since: garbage\r\n", "If-None-Match: \r\nIf-Match: \r\n", "Connection: \r\n", "Connection: ,,,\r\n", "Connection: Range\r\nRange: bytes=0-0\r\n",
	"X-Big: " + strings.Repeat("a", 70000) + "\r\n", "Bad Header: x\r\n", ": empty-name\r\n", "X-NUL: a\x00b\r\n", "Content-Length: -1\r\n", "Content-Length: 5\r\nContent-Length: 6\r\n", "Transfer-Encoding: chunked\r\nContent-Length: 3\r\n",
	"Transfer-Encoding: gzip\r\n", "Expect: 100-continue\r\nContent-Length: 3\r\n", "Upgrade: websocket\r\nConnection: upgrade\r\n", "Proxy-Authorization: Basic !!!\r\n", "Accept-Encoding: gzip\r\n", "Host: second.test\r\n"}

// Range and If-Range are drawn independently of each other and of the other header blocks: the
// deeper range paths need a usable Range together with every shape of validator.
var rangeLines = []string{"", "", "Range: bytes=0-3\r\n", "Range: bytes=0-3\r\n", "Range: bytes=2-\r\n", "Range: bytes=-4\r\n", "Range: bytes=9-9\r\n", "Range: bytes=50-60\r\n", "Range: bytes=0-0,2-3\r\n",
	"Range: bytes=\r\n", "Range: bytes=3-1\r\n", "Range: items=0-3\r\n", "Range: bytes=0-3\r\nRange: bytes=4-5\r\n", "Range: bytes=18446744073709551616-\r\n", "range: BYTES=0-3\r\n"}
var ifRangeLines = []string{"", "", "", "If-Range: \"x\"\r\n", "If-Range: \"y\"\r\n", "If-Range: W/\"x\"\r\n", "If-Range: Mon, 02 Jan 2006 15:04:05 GMT\r\n", "If-Range: Sunday, 06-Nov-94 08:49:37 GMT\r\n",
	"If-Range: Sun Nov  6 08:49:37 1994\r\n", "If-Range: garbage\r\n", "If-Range: v1\r\n", "If-Range: \"\r\n", "If-Range: \r\n", "If-Range: W/\r\n", "If-Range: \"x\", \"y\"\r\n", "If-Range: \"x\"\r\nIf-Range: \"y\"\r\n",
	"If-Range: Mon, 02 Jan 2006 15:04:05 GMT extra\r\n", "If-Range: 0\r\n", "If-Range: -1\r\n", "If-Range: " + strings.Repeat("\"", 400) + "\r\n"}

var bodies = []string{"", "", "", "abc", "3\r\nabc\r\n0\r\n\r\n", "zz\r\n", "5\r\nab"}

var originAnswers = []string{"", "", "", "@416-unless-plain@", "@416-unless-plain@", "HTTP/1.1 200 OK\r\nContent-Length: 3\r\n\r\nabc", "HTTP/1.1 200 OK\r\nContent-Length: 10\r\n\r\nabc", "HTTP/1.1 200 OK\r\nContent-Length: -5\r\n\r\nabc", "HTTP/1.1 200 OK\r\nContent-Length: 3\r\nContent-Length: 4\r\n\r\nabc",
	"HTTP/1.1 200 OK\r\nTransfer-Encoding: chunked\r\n\r\nzz\r\nabc\r\n0\r\n\r\n", "HTTP/1.1 200 OK\r\nTransfer-Encoding: chunked\r\n\r\n3\r\nabc\r\n", "HTTP/1.1 200\r\n\r\n", "HTTP/1.1 999 Weird\r\nContent-Length: 0\r\n\r\n",
	"HTTP/1.1 20 Short\r\n\r\n", "HTTP/1.1 099 Low\r\nContent-Length: 0\r\n\r\n", "HTTP/1.1 000 Zero\r\nContent-Length: 2\r\n\r\nok", "HTTP/1.1 001 One\r\nCache-Control: max-age=60\r\nContent-Length: 2\r\n\r\nok", "HTTP/1.1 1000 Big\r\nContent-Length: 0\r\n\r\n", "HTTP/9.9 200 OK\r\n\r\n", "garbage\r\n\r\n", "", "HTTP/1.1 200 OK\r\nBad Header\r\n\r\n", "HTTP/1.1 200 OK\r\nCache-Control: max-age=60\r\nContent-Length: 0\r\n\r\n", "HTTP/1.1 304 Not Modified\r\n\r\n",
	"HTTP/1.1 206 Partial Content\r\nContent-Range: bytes 5-2/3\r\nContent-Length: 3\r\n\r\nabc", "HTTP/1.1 416 Range Not Satisfiable\r\nContent-Length: 0\r\n\r\n", "HTTP/1.1 100 Continue\r\n\r\nHTTP/1.1 200 OK\r\nContent-Length: 2\r\n\r\nok",
	"HTTP/1.1 200 OK\r\nExpires: 0\r\nCache-Control: no-store, max-age=abc\r\nContent-Length: 1\r\n\r\nx", "HTTP/1.1 200 OK\r\nCache-Control: max-age=\"\r\nContent-Length: 1\r\n\r\nx", "HTTP/1.1 200 OK\r\nCache-Control: public, max-age=\"60\r\nCache-Control: \"\r\nContent-Length: 1\r\n\r\nx", "HTTP/1.1 204 No Content\r\nContent-Length: 5\r\n\r\nabcde", "HTTP/1.1 200 OK\r\nContent-Encoding: gzip\r\nContent-Length: 3\r\n\r\nabc",
	"HTTP/1.1 301 Moved\r\nLocation: http://[::1\r\nContent-Length: 0\r\n\r\n", "HTTP/1.1 200 OK\r\nETag: \r\nLast-Modified: garbage\r\nContent-Length: 1\r\n\r\nx", "HTTP/1.1 200 OK\r\nX: " + strings.Repeat("b", 100000) + "\r\n\r\n"}

var connectTargets = []string{"@", "@", "@", "localhost", "@:", ":443", "[::1]:443", "[::1", "a:b:c", "", "*", "localhost:99999", "\x00:1", "127.0.0.1:1"}

func TestRawExchanges(t *testing.T) {
	subRaw.CheckSalt(t, 3, ev.N(2000, 160000), func(t *rapid.T) Raw {
		c := Raw{
			Transport: rapid.SampledFrom([]string{"plain", "plain", "tunnel"}).Draw(t, "transport"),
			Line:      rapid.SampledFrom(reqLines).Draw(t, "line"),
			HostHdr:   rapid.SampledFrom([]string{"@", "@", "@", "-", "", "other.test", "@, @", "[::1", "a b"}).Draw(t, "host"),
			Headers:   rapid.SampledFrom(hdrBlocks).Draw(t, "h1") + rapid.SampledFrom(hdrBlocks).Draw(t, "h2") + rapid.SampledFrom(rangeLines).Draw(t, "range") + rapid.SampledFrom(ifRangeLines).Draw(t, "if-range"),
			Body:      rapid.SampledFrom(bodies).Draw(t, "body"),
			Origin:    rapid.SampledFrom(originAnswers).Draw(t, "origin"),
			Connect:   rapid.SampledFrom(connectTargets).Draw(t, "connect"),
			Prime:     rapid.Bool().Draw(t, "prime"),
		}
		if rapid.IntRange(0, 3).Draw(t, "well-formed") == 0 {
			// a quarter of the exchanges are well-formed Range/conditional requests, so that hostile ORIGIN answers
			// (416, malformed framing, odd status lines) meet the deeper request paths and not only net/http's 400s
			c.Line = rapid.SampledFrom([]string{"GET http://@/r HTTP/1.1", "GET http://@/r HTTP/1.1", "HEAD http://@/r HTTP/1.1", "GET http://@/r?x=1 HTTP/1.0"}).Draw(t, "wf-line")
			c.HostHdr = "@"
			c.Headers = rapid.SampledFrom([]string{"Range: bytes=0-3\r\n", "Range: bytes=2-\r\n", "Range: bytes=-4\r\n", "Range: bytes=50-60\r\n", "Range: bytes=0-3\r\nIf-Range: \"x\"\r\n",
				"Range: bytes=0-3\r\nX-mode: retry\r\n", "If-None-Match: \"x\"\r\n", "If-Modified-Since: Mon, 02 Jan 2006 15:04:05 GMT\r\n", "Cache-Control: no-cache\r\n", ""}).Draw(t, "wf-headers")
			if rapid.Bool().Draw(t, "wf-range-product") {
				c.Headers = rapid.SampledFrom(rangeLines).Draw(t, "wf-range") + rapid.SampledFrom(ifRangeLines).Draw(t, "wf-if-range") + rapid.SampledFrom([]string{"", "", "X-mode: retry\r\n", "Cache-Control: no-cache\r\n"}).Draw(t, "wf-misc")
			}
			c.Body = ""
			c.Connect = "@"
		}
		if c.Transport == "tunnel" {
			// inside a tunnel requests are in origin form
			c.Line = strings.Replace(c.Line, "http://@", "", 1)
			if !strings.Contains(c.Line, " /") && rapid.Bool().Draw(t, "fix") {
				c.Line = "GET /r HTTP/1.1"
			}
		}
		return c
	})
}

// Requests that name the proxy itself as their target. Each costs the full read deadline while the recorded
// finding (raw.unanswered:self-addressed) stands, so they are a handful of cases of their own instead of a
// share of the exchanges above.
func TestSelfAddressed(t *testing.T) {
	subRaw.CheckSalt(t, 5, ev.N(3, 24), func(t *rapid.T) Raw {
		return Raw{
			Transport: "plain",
			Line:      rapid.SampledFrom([]string{"GET http://~/r HTTP/1.1", "GET /r HTTP/1.1", "HEAD http://~/ HTTP/1.1", "GET http:// HTTP/1.1"}).Draw(t, "self-line"),
			HostHdr:   "~",
			Headers:   rapid.SampledFrom([]string{"", "Range: bytes=0-3\r\n", "Cache-Control: no-cache\r\n"}).Draw(t, "self-headers"),
			Connect:   "@",
		}
	})
}
