package c16

import (
	"bufio"
	"encoding/json"
	"fmt"
	"net/http"
	"os"
	"regexp"
	"strconv"
	"strings"
	"testing"
	"time"

	"pgregory.net/rapid"
	"reservoir/cache"
	"reservoir/proxy/headers"
	"reservoir/utils/bytesize"
	"reservoir/utils/duration"
	"reservoir/utils/phc"

	"verifharness/internal/ev"
	"verifharness/internal/px"
)

func TestMain(m *testing.M)   { ev.Main(m, "C16") }
func TestReplay(t *testing.T) { ev.ReplayWitnesses(t) }

// Unit is one input for one parser entry point.
type Unit struct {
	Target string `json:"target"` // request-headers | response-headers | size | size-json | duration-json | phc | cert-host
	Input  string `json:"input"`
	Size   int64  `json:"size,omitempty"`
}

func runUnit(u Unit) (handled string, pan any) {
	defer func() { pan = recover() }()
	switch u.Target {
	case "request-headers":
		r, err := http.ReadRequest(bufio.NewReader(strings.NewReader(u.Input)))
		if err != nil {
			return "transport-rejected", nil
		}
		hd := headers.ParseHeaderDirective(r.Header)
		hd.StripRegularConditionals(r.Header)
		_ = cache.MakeFromRequest(r)
		if hd.Range.IsPresent() {
			hd.Range.Value().SliceSize(u.Size)
		}
		hd.ShouldCache(false)
		hd.GetExpiresOrDefault(false, time.Minute)
		return "parsed", nil
	case "response-headers":
		resp, err := http.ReadResponse(bufio.NewReader(strings.NewReader(u.Input)), nil)
		if err != nil {
			return "transport-rejected", nil
		}
		hd := headers.ParseHeaderDirective(resp.Header)
		hd.ShouldCache(false)
		hd.ShouldCache(true)
		hd.GetExpiresOrDefault(false, time.Minute)
		hd.GetExpiresOrDefault(true, time.Minute)
		if hd.Range.IsPresent() {
			hd.Range.Value().SliceSize(u.Size)
		}
		return "parsed", nil
	case "size":
		if _, err := bytesize.Parse(u.Input); err != nil {
			return "rejected", nil
		}
		return "accepted", nil
	case "size-json":
		var b bytesize.ByteSize
		if err := json.Unmarshal([]byte(u.Input), &b); err != nil {
			return "rejected", nil
		}
		_ = b.String()
		return "accepted", nil
	case "duration-json":
		var d duration.Duration
		if err := json.Unmarshal([]byte(u.Input), &d); err != nil {
			return "rejected", nil
		}
		json.Marshal(d)
		return "accepted", nil
	case "phc":
		p, err := phc.ParsePHC(u.Input)
		if err != nil {
			return "rejected", nil
		}
		_ = p.String()
		var q phc.PHC
		q.Scan(u.Input)
		// Verify only with cheap parameters, taken from the parsed value's own canonical form: a stored hash
		// asking for a million passes is slow by design (no panic), and would only stall the harness
		if m := phcParams.FindStringSubmatch(p.String()); m != nil && len(m[1]) <= 2 && len(m[2]) == 1 && m[2] <= "4" && len(m[4]) <= 2 && len(p.String()) < 300 {
			if mem, _ := strconv.Atoi(m[1]); mem <= 64 {
				p.VerifyArgon2id("password")
			}
		}
		return "accepted", nil
	case "cert-host":
		ca, _, _ := px.TestCA()
		if _, err := ca.GetCertForHost(u.Input); err != nil {
			return "rejected", nil
		}
		return "accepted", nil
	}
	return "unknown-target", nil
}

var subUnit = ev.Register("parsers",
	"generated inputs for every parser entry point reachable from the wire, the disk or the API: request bytes -> http.ReadRequest -> ParseHeaderDirective / StripRegularConditionals / MakeFromRequest / SliceSize / ShouldCache / GetExpiresOrDefault; response bytes -> http.ReadResponse -> the same; bytesize.Parse and ByteSize JSON; Duration JSON; phc.ParsePHC / Scan (Verify only with tiny memory parameters); GetCertForHost on arbitrary strings; oracle: accepted or rejected with an error, never a panic; non-trivial = the transport layer accepted the bytes (or the target has no transport layer) and the input is not from the repository's test tables; distinct by (target, input)",
	func(u Unit, o *ev.Obs) *ev.Failure {
		handled, pan := runUnit(u)
		o.Class("target:" + u.Target)
		o.Class(u.Target + ":" + handled)
		o.NonTrivial = handled != "transport-rejected"
		if pan != nil {
			return ev.Failf("panic:"+u.Target+":"+panicClass(u), "%s input %q: panic: %v", u.Target, clip(u.Input), pan)
		}
		return nil
	})

func panicClass(u Unit) string {
	if u.Target == "phc" {
		parts := strings.Split(strings.TrimPrefix(strings.TrimSpace(u.Input), "$"), "$")
		if len(parts) == 5 && len(parts[3]) > 22 {
			return "long-salt"
		}
	}
	return "other"
}

func clip(s string) string {
	if len(s) > 300 {
		return s[:300] + "…"
	}
	return s
}

var rangeVals = []string{"bytes=0-0", "bytes=", "bytes=5", "bytes=-", "bytes=-5", "bytes=5-", "bytes=5-2", "bytes=0-0,2-3", "bytes= 1 - 2 ", "bytes=18446744073709551616-", "bytes=0-18446744073709551617",
	"bytes", "=", "bytes=-0", "bytes=a-b", "items=1-2", "bytes=1-2-3", "bytes=\t1-\t", "BYTES=0-1", "bytes=९-९", "bytes=0x1-2", "bytes=1e3-", "bytes=--1", "bytes=-1-"}
var ccVals = []string{"max-age=60", "max-age=", "max-age", "max-age=-1", "max-age=99999999999999999999", "no-store", ",,,", "", " ", "max-age=1,max-age=2", "MAX-AGE=\"5\"", "private=\"x,y\"", "=", "max-age==5", "\"", "no-cache=\"unterminated"}
var dateVals = []string{"Mon, 02 Jan 2006 15:04:05 GMT", "0", "-1", "", "Monday, 02-Jan-06 15:04:05 GMT", "Mon Jan  2 15:04:05 2006", "Mon, 02 Jan 2006 15:04:05 UTC", "Mon, 32 Jan 2006 25:61:61 GMT", "9999999999", "\"etag\"", "W/\"x\""}
var hdrNames = []string{"Range", "If-Range", "Cache-Control", "Expires", "If-Modified-Since", "If-Unmodified-Since", "If-None-Match", "If-Match", "range", "CACHE-CONTROL", "X-Other"}

func drawHeaderLines(t *rapid.T) string {
	var b strings.Builder
	for i := rapid.IntRange(0, 6).Draw(t, "nhdr"); i > 0; i-- {
		name := rapid.SampledFrom(hdrNames).Draw(t, "name")
		var v string
		switch rapid.IntRange(0, 3).Draw(t, "vkind") {
		case 0:
			v = rapid.SampledFrom(rangeVals).Draw(t, "range")
		case 1:
			v = rapid.SampledFrom(ccVals).Draw(t, "cc")
			if rapid.Bool().Draw(t, "cc-grammar") {
				v = drawCC(t)
			}
		case 2:
			v = rapid.SampledFrom(dateVals).Draw(t, "date")
		default:
			v = rapid.StringMatching(`[ -~]{0,12}`).Draw(t, "free")
		}
		fmt.Fprintf(&b, "%s: %s\r\n", name, v)
	}
	return b.String()
}

var phcParams = regexp.MustCompile(`\$m=(\d+),t=(\d+),p=(\d+),l=(\d+)\$`)

var phcParts = [][]string{
	{"argon2id", "argon2i", "", "bcrypt"},
	{"v=19", "v=", "v=x", "19", "v=99999999999999999999"},
	{"m=8,t=1,p=1", "m=8,t=1,p=1,l=32", "m=0,t=1,p=1", "m=8,t=1", "", "m=x,t=1,p=1", "m=8,t=1,p=256", "m=4294967296,t=1,p=1", "m=8,,t=1,p=1,", "m=8,t=1,p=1,l=4294967295", "q=1,m=16,t=1,p=1", "m", "m=8,t=1,p=1,l=0"},
	{"AAAAAAAAAAAAAAAAAAAAAA", "AAAAAAAAAAAAAAAAAAAAAAA", "AAAAAAAAAAAAAAAAAAAAAAAAAAAAAAAAAAAAAAAAAAAA", "", "AA", "!!!!", "AAAAAAAAAAAAAAAAAAAAA=", "weMSjfxU6+aXx8ylew5tAQ"},
	{"AAAAAAAAAAAAAAAAAAAAAAAAAAAAAAAAAAAAAAAAAAA", "", "AAAA", "!!", "oUu4uP4YwqXbDktayQKfj/mxKmR9fTUbghuIIReRaRA"},
}

func drawUnit(t *rapid.T) Unit {
	u := Unit{Size: rapid.SampledFrom([]int64{0, 1, 10, 1000}).Draw(t, "size")}
	switch rapid.IntRange(0, 7).Draw(t, "target") {
	case 0, 1:
		u.Target = "request-headers"
		line := rapid.SampledFrom([]string{"GET http://h.test/p?q HTTP/1.1", "GET /p HTTP/1.1", "HEAD http://h.test/ HTTP/1.0", "POST http://h.test:80/a%2Fb HTTP/1.1", "GET http://h.test/%zz HTTP/1.1", "GET http://[::1]/ HTTP/1.1", "OPTIONS * HTTP/1.1", "CONNECT h.test:443 HTTP/1.1", "GET http://h.test/a|b?c|d HTTP/1.1", "GET //x//y HTTP/1.1", "GET http://h.test HTTP/1.1"}).Draw(t, "line")
		u.Input = line + "\r\nHost: h.test\r\n" + drawHeaderLines(t) + "\r\n"
	case 2:
		u.Target = "response-headers"
		line := rapid.SampledFrom([]string{"HTTP/1.1 200 OK", "HTTP/1.1 304 Not Modified", "HTTP/1.0 200", "HTTP/1.1 999 X", "HTTP/1.1 206 Partial Content"}).Draw(t, "line")
		u.Input = line + "\r\n" + drawHeaderLines(t) + "Content-Length: 0\r\n\r\n"
	case 3:
		u.Target = rapid.SampledFrom([]string{"size", "size-json"}).Draw(t, "size-target")
		u.Input = rapid.SampledFrom([]string{"", "K", "1K", "10Mxyz", "1K2", "-1B", "9223372036854775807B", "9223372036854775808B", "99999999999999999999T", "1 K", "1k", "١K", "0x10B", "\x00", "1.5G", "K1", "BB", "9007199254740993T"}).Draw(t, "size-input")
		if rapid.Bool().Draw(t, "free") {
			u.Input = rapid.StringMatching(`[0-9BKMGT xk.\-]{0,8}`).Draw(t, "size-free")
		}
		if u.Target == "size-json" {
			if rapid.IntRange(0, 3).Draw(t, "raw-json") == 0 {
				u.Input = rapid.SampledFrom([]string{"null", "5", "{}", "[]", "\"", "true", "1e99"}).Draw(t, "json")
			} else {
				b, _ := json.Marshal(u.Input)
				u.Input = string(b)
			}
		}
	case 4:
		u.Target = "duration-json"
		u.Input = rapid.SampledFrom([]string{`"1h"`, `"0s"`, `"-1s"`, `""`, `"1"`, `"1x"`, `"9999999999h"`, `null`, `5`, `"1h1h1h"`, `".5s"`, `"1e3s"`, `{}`, `"\u0000"`}).Draw(t, "dur")
	case 5, 6:
		u.Target = "phc"
		var parts []string
		for _, choices := range phcParts {
			if rapid.IntRange(0, 9).Draw(t, "valid-part") < 7 {
				parts = append(parts, choices[0]) // a well-formed part, so that later parts are reached
			} else {
				parts = append(parts, rapid.SampledFrom(choices).Draw(t, "part"))
			}
		}
		u.Input = rapid.SampledFrom([]string{"$", "", " $", "$$"}).Draw(t, "lead") + strings.Join(parts, "$")
		if rapid.IntRange(0, 5).Draw(t, "extra") == 0 {
			u.Input += "$extra"
		}
	default:
		u.Target = "cert-host"
		u.Input = rapid.SampledFrom([]string{"a:1", "a", ":", "[::1]:1", "[::1", "::1:1", "a:b:c", "", "\x00:1", "a:99999", "[fe80::1%eth0]:1", " a:1", strings.Repeat("a", 300) + ":1", strings.Repeat("a.", 200) + "b:1"}).Draw(t, "host")
	}
	return u
}

// The Cache-Control grammar is small: every directive name x every argument shape, alone and in pairs,
// is enumerated (on request and response side) instead of being left to chance.
var ccNames = []string{"max-age", "s-maxage", "no-cache", "no-store", "private", "stale-while-revalidate", "MAX-AGE", "x"}
var ccArgs = []string{"", "=", "=5", "=\"5\"", "=\"", "=\"\"", "=\"5", "=5\"", "=-1", "=05", "= 5", "=\"1,2\"", "=1e3", "=99999999999999999999", "='5'", "=\"\\\"\"", "==", "=\" \""}
var ccSeps = []string{",", ", ", " , ", ",,"}

func TestCacheControlGrammar(t *testing.T) {
	subUnit.Enumerate(t, true, func(yield func(Unit) bool) {
		idx := 0
		emit := func(v string) bool {
			idx++
			if idx%ev.NShards != ev.Shard {
				return true
			}
			return yield(Unit{Target: "request-headers", Input: "GET http://h.test/p HTTP/1.1\r\nHost: h.test\r\nCache-Control: " + v + "\r\n\r\n"}) &&
				yield(Unit{Target: "response-headers", Input: "HTTP/1.1 200 OK\r\nCache-Control: " + v + "\r\nContent-Length: 0\r\n\r\n"})
		}
		var singles []string
		for _, n := range ccNames {
			for _, a := range ccArgs {
				singles = append(singles, n+a)
			}
		}
		for _, d := range singles {
			if !emit(d) || !emit(" "+d+" ") {
				return
			}
		}
		seps := ccSeps[:1]
		if ev.Thorough() {
			seps = ccSeps
		}
		for _, a := range singles {
			for _, b := range singles {
				for _, sp := range seps {
					if !emit(a + sp + b) {
						return
					}
				}
			}
		}
	})
}

func drawCC(t *rapid.T) string {
	var parts []string
	for i := rapid.IntRange(1, 4).Draw(t, "ndir"); i > 0; i-- {
		parts = append(parts, rapid.SampledFrom(ccNames).Draw(t, "cc-name")+rapid.SampledFrom(ccArgs).Draw(t, "cc-arg"))
	}
	return strings.Join(parts, rapid.SampledFrom(ccSeps).Draw(t, "cc-sep"))
}

func TestParsers(t *testing.T) {
	subUnit.CheckSalt(t, 1, ev.N(60000, 3000000), drawUnit)
}

func FuzzParsers(f *testing.F) {
	for _, s := range rangeVals {
		f.Add("request-headers", "GET http://h.test/ HTTP/1.1\r\nHost: h.test\r\nRange: "+s+"\r\n\r\n", int64(10))
	}
	for _, s := range []string{"$argon2id$v=19$m=8,t=1,p=1$AAAAAAAAAAAAAAAAAAAAAA$AAAA", "$argon2id$v=19$m=8,t=1,p=1$AAAAAAAAAAAAAAAAAAAAAAAAAAAAAAAA$AAAA"} {
		f.Add("phc", s, int64(0))
	}
	f.Add("size", "10Mxyz", int64(0))
	f.Add("response-headers", "HTTP/1.1 200 OK\r\nCache-Control: max-age=abc\r\nExpires: 0\r\n\r\n", int64(0))
	f.Fuzz(func(t *testing.T, target, input string, size int64) {
		switch target {
		case "request-headers", "response-headers", "size", "size-json", "duration-json", "phc":
		default:
			target = []string{"request-headers", "response-headers", "size", "size-json", "duration-json", "phc"}[len(target)%6]
		}
		if size < 0 {
			size = 0
		}
		if fl := subUnit.Once(Unit{Target: target, Input: input, Size: size}); fl != nil {
			ev.Flush()
			t.Fatalf("%s: %s", fl.Sig, fl.What)
		}
	})
	if os.Getenv("VERIF_FUZZING") != "" {
		ev.Flush()
	}
}
