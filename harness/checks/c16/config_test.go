package c16

import (
	"encoding/json"
	"fmt"
	"testing"

	"pgregory.net/rapid"

	"verifharness/internal/cfgkit"
	"verifharness/internal/childproc"
	"verifharness/internal/ev"
)

// CfgInput is a batch of arbitrary JSON fed to the configuration system inside a child process.
type CfgInput struct {
	Backend string   `json:"backend"`
	Files   []string `json:"files"`   // written to var/config.json and loaded
	Updates []string `json:"updates"` // JSON documents submitted as API updates
}

var jsonAtoms = []string{`null`, `true`, `0`, `-1`, `1e308`, `1.5`, `""`, `"x"`, `"0s"`, `"-1s"`, `"0B"`, `"10Mxyz"`, `"K"`, `"9223372036854775808B"`, `[]`, `[1]`, `{}`,
	`"memory"`, `"file"`, `"DEBUG"`, `"LOUD"`, `18446744073709551616`, `"\u0000"`, `"1h"`, `101`, `-2147483649`,
	// objects where a scalar setting is expected, with the key names a reflective decoder might trip over
	`{"":1}`, `{"x":1}`, `{"value":1}`, `{"":{"":{}}}`, `[{}]`, `{"":null}`, `{"-":1}`}

func drawJSONDoc(t *rapid.T) string {
	// mostly documents shaped like the real configuration, with arbitrary values at the leaves
	d := cfgkit.Doc{}
	for _, p := range cfgkit.Paths() {
		switch rapid.IntRange(0, 5).Draw(t, "leaf") {
		case 0:
			var v any
			json.Unmarshal([]byte(rapid.SampledFrom(jsonAtoms).Draw(t, "atom")), &v)
			cfgkit.Set(d, p, v)
		case 1:
			cfgkit.Set(d, p, cfgkit.Valid[p](t))
		}
	}
	switch rapid.IntRange(0, 9).Draw(t, "shape") {
	case 0:
		return rapid.SampledFrom([]string{``, `{`, `[]`, `null`, `"x"`, `{"cache":5}`, `{"cache":{"file":"x"}}`, `{"proxy":[]}`, `{"a":{"b":{"c":{"d":1}}}}`, `{"cache":{"max_cache_size":{"x":1}}}`, "\x00", `{"cache":null}`}).Draw(t, "raw")
	case 1:
		d["unknown_section"] = cfgkit.Doc{"x": 1}
	}
	b, _ := json.Marshal(d)
	return string(b)
}

var subCfg = ev.Register("config-inputs",
	"arbitrary JSON (documents shaped like the configuration with boundary / ill-typed / overflowing values at the leaves, plus raw malformed documents) written to var/config.json and loaded with LoadOrDefault, and submitted as API updates with UpdatePartialFromConfig, against a configuration with a running cache + janitor and subscribers, inside a journaling child process; oracle: every input is accepted or rejected with an error and the process stays alive (a panic in a subscriber goroutine aborts the child and the journal names the input), and afterwards every read route of the dashboard API, served on the saved configuration as the next start would, answers its request (no handler panic); non-trivial = batch contains a document that parses as JSON; distinct by batch",
	func(c CfgInput, o *ev.Obs) *ev.Failure {
		child, err := childproc.Start()
		if err != nil {
			o.Skip = true
			ev.Incomplete("child: %v", err)
			return nil
		}
		defer child.Close()
		step := func(what string, cmd map[string]any) *ev.Failure {
			_, err := child.Do(cmd)
			if err != nil {
				if d, ok := err.(*childproc.Died); ok {
					return ev.Failf("config-input.process-aborted:"+abortClass(d.Stderr), "%s: the process aborted: %s", what, d.Stderr)
				}
				return ev.Failf("config-input.harness", "%s: %v", what, err)
			}
			return nil
		}
		for _, f := range c.Files {
			if json.Valid([]byte(f)) {
				o.NonTrivial = true
			}
			if fl := step(fmt.Sprintf("loading a configuration file with content %q", clip(f)), map[string]any{"op": "load", "bytes": f}); fl != nil {
				return fl
			}
		}
		if fl := step("init", map[string]any{"op": "init", "backend": c.Backend}); fl != nil {
			return fl
		}
		for _, u := range c.Updates {
			var doc map[string]any
			if json.Unmarshal([]byte(u), &doc) != nil {
				continue // the API endpoint answers 400 before the configuration system is reached
			}
			o.NonTrivial = true
			if fl := step(fmt.Sprintf("update %s", clip(u)), map[string]any{"op": "update", "doc": doc}); fl != nil {
				return fl
			}
		}
		if fl := step("final state", map[string]any{"op": "state"}); fl != nil {
			return fl
		}
		// the values that were accepted are now the saved configuration: the dashboard API's read routes, served on
		// it the way the next start would, answer every request (a handler that panics drops its connection)
		res, err := child.Do(map[string]any{"op": "api"})
		if err != nil {
			if d, ok := err.(*childproc.Died); ok {
				return ev.Failf("config-input.process-aborted:api:"+abortClass(d.Stderr), "serving the API on the saved configuration: the process aborted: %s", d.Stderr)
			}
			return ev.Failf("config-input.harness", "api: %v", err)
		}
		if res.Probe != "ok" {
			return ev.Failf("config-input.api-route-panics", "after files %q and updates %q: %s", clipAll(c.Files), clipAll(c.Updates), res.Probe)
		}
		return nil
	})

func clipAll(xs []string) []string {
	out := make([]string, len(xs))
	for i, x := range xs {
		out[i] = clip(x)
	}
	return out
}

func abortClass(stderr string) string {
	switch {
	case len(stderr) == 0:
		return "silent"
	default:
		for _, k := range []string{"Ticker.Reset", "divide by zero", "makeslice", "nil pointer", "index out of range"} {
			if contains(stderr, k) {
				return k
			}
		}
	}
	return "other"
}

func contains(s, sub string) bool {
	for i := 0; i+len(sub) <= len(s); i++ {
		if s[i:i+len(sub)] == sub {
			return true
		}
	}
	return false
}

func TestConfigInputs(t *testing.T) {
	subCfg.CheckSalt(t, 2, ev.N(120, 12000), func(t *rapid.T) CfgInput {
		c := CfgInput{Backend: rapid.SampledFrom([]string{"memory", "file"}).Draw(t, "backend")}
		for i := rapid.IntRange(0, 3).Draw(t, "nfiles"); i > 0; i-- {
			c.Files = append(c.Files, drawJSONDoc(t))
		}
		for i := rapid.IntRange(1, 8).Draw(t, "nupdates"); i > 0; i-- {
			c.Updates = append(c.Updates, drawJSONDoc(t))
		}
		return c
	})
}
