package c16

// A stored hash string that the parser accepts is one the login path will hand to argon2 with the
// parameters it names. Parameters no machine can serve (terabytes of memory) therefore have to be
// refused by the parser: accepted, they end the whole process with the runtime's fatal "out of
// memory", which is not a panic anybody can recover from. The verification of expensive strings
// runs in a child process (cmd/phcchild, address space capped at 8 GiB).

import (
	"context"
	"encoding/base64"
	"fmt"
	"os"
	"os/exec"
	"path/filepath"
	"strings"
	"testing"
	"time"

	"pgregory.net/rapid"
	"reservoir/utils/phc"

	"verifharness/internal/ev"
)

type PHCUse struct {
	M uint64 `json:"m_kib"`
	T uint32 `json:"t"`
	P uint32 `json:"p"`
	L bool   `json:"with_l"`
}

func (c PHCUse) String() string {
	salt := base64.RawStdEncoding.EncodeToString([]byte("0123456789abcdef"))
	hash := base64.RawStdEncoding.EncodeToString([]byte("0123456789abcdef0123456789abcdef"))
	l := ""
	if c.L {
		l = ",l=32"
	}
	return fmt.Sprintf("$argon2id$v=19$m=%d,t=%d,p=%d%s$%s$%s", c.M, c.T, c.P, l, salt, hash)
}

var subPHCUse = ev.Register("phc-accepted-is-usable",
	"argon2id hash strings with m from 8 KiB to 2^32-1 KiB (4 TiB), t 1-3, p 1-255; oracle: ParsePHC does not panic; a string it accepts is then verified - in process up to 64 MiB, in a child process with an 8 GiB address space up to 1 GiB and from 2 TiB upwards (in between nothing is demanded: what a machine can serve differs) - and the verification must come back: a child that dies with the runtime's fatal out-of-memory error shows an accepted stored string aborting the process; non-trivial = the string was accepted or names at least 2 TiB; distinct by case",
	func(c PHCUse, o *ev.Obs) *ev.Failure {
		s := c.String()
		var p *phc.PHC
		var err error
		if f := noPanic("phc.panic:parse", s, func() { p, err = phc.ParsePHC(s) }); f != nil {
			return f
		}
		o.Classf("accepted:%v", err == nil)
		switch {
		case c.M <= 64*1024:
			o.Class("size:<=64MiB")
		case c.M <= 1<<20:
			o.Class("size:<=1GiB")
		case c.M >= 1<<31:
			o.Class("size:>=2TiB")
		default:
			o.Class("size:between (no verdict)")
		}
		o.NonTrivial = err == nil || c.M >= 1<<31
		if err != nil {
			return nil
		}
		if c.M <= 64*1024 {
			return noPanic("phc.panic:verify", s, func() { p.VerifyArgon2id("a password") })
		}
		if c.M > 1<<20 && c.M < 1<<31 {
			return nil
		}
		bin := filepath.Join(os.Getenv("VERIF_BIN_DIR"), "phcchild")
		if _, serr := os.Stat(bin); serr != nil {
			return ev.Failf("phc.harness", "phcchild binary not built: %v", serr)
		}
		ctx, cancel := context.WithTimeout(context.Background(), 240*time.Second)
		defer cancel()
		out, rerr := exec.CommandContext(ctx, bin, s, "a password").CombinedOutput()
		if ctx.Err() != nil {
			ev.Incomplete("phcchild did not finish within 240 s for m=%d t=%d p=%d (inconclusive)", c.M, c.T, c.P)
			o.Skip = true
			return nil
		}
		if rerr != nil || !strings.HasPrefix(string(out), "verified:") {
			first := string(out)
			if i := strings.IndexByte(first, '\n'); i > 0 {
				first = first[:i]
			}
			return ev.Failf("phc.accepted-hash-aborts-process", "the stored hash string %q is accepted by ParsePHC; verifying a password against it ends the process: %v: %s", s, rerr, first)
		}
		return nil
	})

func noPanic(sig, input string, fn func()) (f *ev.Failure) {
	defer func() {
		if r := recover(); r != nil {
			f = ev.Failf(sig, "input %q: panic: %v", input, r)
		}
	}()
	fn()
	return nil
}

func TestPHCAcceptedIsUsable(t *testing.T) {
	subPHCUse.CheckSalt(t, 31, ev.N(40, 400), func(t *rapid.T) PHCUse {
		c := PHCUse{
			M: rapid.SampledFrom([]uint64{8, 8, 1024, 65536, 65536, 1 << 20, 1 << 22, 1 << 26, 1 << 31, 3000000000, 1<<32 - 1, 1<<32 - 1}).Draw(t, "m"),
			T: uint32(rapid.IntRange(1, 3).Draw(t, "t")),
			P: rapid.SampledFrom([]uint32{1, 1, 2, 4, 255}).Draw(t, "p"),
			L: rapid.Bool().Draw(t, "l"),
		}
		if c.M > 65536 {
			c.T = 1 // one pass is enough to ask for the memory
		}
		return c
	})
}
