package c19

// The janitor as a listener of cache.cleanup_interval: the same scenario as C13's interval-change
// (kept as a copy so that each property's check stands alone).

import (
	"fmt"
	"sync"
	"testing"
	"time"

	"reservoir/config"
	"reservoir/metrics"
	"reservoir/utils/verifhook"
	"verifharness/internal/cachekit"
	"verifharness/internal/ev"

	"pgregory.net/rapid"
)

type Interval struct {
	Backend string `json:"backend"`
	NewMs   int    `json:"new_ms"`
	// Earlier lists settings (ms) applied, each accepted, before NewMs; InCycle issues the whole series
	// while the janitor is held inside a cleanup cycle (hook H2), so that it finds them waiting.
	Earlier []int `json:"earlier,omitempty"`
	InCycle bool  `json:"in_cycle,omitempty"`
}

func setInterval(k *cachekit.Kit, ms int) error {
	_, err := config.UpdatePartialFromConfig(k.Cfg, map[string]any{"cache": map[string]any{"cleanup_interval": fmt.Sprintf("%dms", ms)}})
	return err
}

var subInterval = ev.Register("janitor-follows-interval",
	"a cache receives a series of 1-3 accepted run-time cleanup_interval updates (1 h / 5-40 ms values, the last one 5-40 ms), either while its janitor idles on a 1 h interval or while it is held inside a cleanup cycle (hook H2) so that it finds the changes waiting; changes are spaced (60 ms, 600 ms on the confirming run) so that the recorded unordered-notification finding of C19 does not apply; oracle: cleanup cycles then run at the rate of the last setting (cleanup_runs advances by >= 3 within 100 intervals + 2 s); non-trivial = always; distinct by (backend, series, in-cycle)",
	func(c Interval, o *ev.Obs) *ev.Failure {
		f := runInterval(c, o, 60*time.Millisecond)
		if f != nil && len(c.Earlier) > 0 && f.Sig == "interval.not-followed" {
			// a notification goroutine that did not get to run for 60 ms would be C19's recorded finding, not
			// this one: confirm with ten times the spacing
			o.Class("confirmed-with-wider-spacing")
			f = runInterval(c, &ev.Obs{}, 600*time.Millisecond)
		}
		return f
	})

func runInterval(c Interval, o *ev.Obs, gap time.Duration) *ev.Failure {
	start := time.Hour
	if c.InCycle {
		start = 15 * time.Millisecond
	}
	inCycle, release := make(chan struct{}), make(chan struct{})
	if c.InCycle {
		var once sync.Once
		verifhook.Set(func(name string, _ ...string) {
			if name == "janitor.afterScan" {
				once.Do(func() {
					close(inCycle)
					select {
					case <-release:
					case <-time.After(20 * time.Second):
					}
				})
			}
		})
		defer verifhook.Set(nil)
	}
	k := cachekit.New(cachekit.Opts{Backend: c.Backend, Cleanup: start})
	defer k.Close()
	if c.InCycle {
		select {
		case <-inCycle:
		case <-time.After(10 * time.Second):
			close(release)
			return ev.Failf("interval.harness", "no cleanup cycle within 10 s on a 15 ms interval")
		}
	} else {
		time.Sleep(5 * time.Millisecond)
		if r := metrics.Global.Cache.CleanupRuns.Get(); r != 0 {
			return ev.Failf("interval.harness", "cycles ran before the change: %d", r)
		}
	}
	for _, ms := range c.Earlier {
		if err := setInterval(k, ms); err != nil {
			if c.InCycle {
				close(release)
			}
			return ev.Failf("interval.update-rejected", "%v", err)
		}
		time.Sleep(gap)
	}
	err := setInterval(k, c.NewMs)
	if c.InCycle {
		time.Sleep(gap)
		close(release)
	}
	if err != nil {
		return ev.Failf("interval.update-rejected", "%v", err)
	}
	o.NonTrivial = true
	o.Classf("series:%d", len(c.Earlier)+1)
	o.Classf("in-cycle:%v", c.InCycle)
	base := metrics.Global.Cache.CleanupRuns.Get()
	budget := time.Duration(100*c.NewMs)*time.Millisecond + 2*time.Second
	deadline := time.Now().Add(budget)
	for time.Now().Before(deadline) {
		if metrics.Global.Cache.CleanupRuns.Get() >= base+3 {
			return nil
		}
		time.Sleep(2 * time.Millisecond)
	}
	return ev.Failf("interval.not-followed", "%s: cleanup_interval series %v then %dms (issued while the janitor was inside a cycle: %v): only %d cycles ran in %v after the last change", c.Backend, c.Earlier, c.NewMs, c.InCycle, metrics.Global.Cache.CleanupRuns.Get()-base, budget)
}

func TestJanitorFollowsInterval(t *testing.T) {
	subInterval.CheckSalt(t, 9, ev.N(10, 300), func(t *rapid.T) Interval {
		c := Interval{Backend: rapid.SampledFrom([]string{"memory", "file"}).Draw(t, "backend"), NewMs: rapid.SampledFrom([]int{5, 10, 20, 40}).Draw(t, "ms")}
		for i := rapid.IntRange(0, 2).Draw(t, "earlier"); i > 0; i-- {
			c.Earlier = append(c.Earlier, rapid.SampledFrom([]int{3600000, 3600000, 7200000, 30, 8}).Draw(t, "earlier-ms"))
		}
		c.InCycle = rapid.Bool().Draw(t, "in-cycle")
		return c
	})
}
