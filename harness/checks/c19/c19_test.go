package c19

import (
	"fmt"
	"runtime"
	"strings"
	"sync"
	"testing"
	"time"

	"pgregory.net/rapid"
	"reservoir/utils/event"

	"verifharness/internal/ev"
)

func TestMain(m *testing.M)   { ev.Main(m, "C19") }
func TestReplay(t *testing.T) { ev.ReplayWitnesses(t) }

// EOp is one step on an event.Event[int].
type EOp struct {
	Kind  string `json:"kind"` // sub | unsub | fire | burst
	Which int    `json:"which,omitempty"`
	N     int    `json:"n,omitempty"`
}

type ESeq struct {
	Procs int   `json:"gomaxprocs"`
	Ops   []EOp `json:"ops"`
}

func (s ESeq) String() string {
	var b strings.Builder
	for _, o := range s.Ops {
		switch o.Kind {
		case "sub":
			b.WriteString("sub ")
		case "subblock":
			b.WriteString("sub(blocks) ")
		case "unsub":
			fmt.Fprintf(&b, "unsub(#%d) ", o.Which)
		case "fire":
			b.WriteString("fire ")
		case "burst":
			fmt.Fprintf(&b, "burst(%d) ", o.N)
		}
	}
	return b.String()
}

type listener struct {
	id      int
	mu      sync.Mutex
	got     []int
	live    bool
	subAt   int // first value number that must be delivered
	unsubAt int // values with number > unsubAt must not be delivered (-1 while live)
	remove  event.Unsubscribe
}

func (l *listener) snapshot() []int {
	l.mu.Lock()
	defer l.mu.Unlock()
	return append([]int(nil), l.got...)
}

var subEvent = ev.Register("event-listeners",
	"sequences of subscribe (some listeners block inside their callback until the end of the case) / unsubscribe (any live listener, each remover called once, any order) / fire / back-to-back burst of 2-50 fires on one event.Event[int] with up to 8 listeners; model = set of live listeners with the value range each must see; oracle after quiescence (bounded wait): no panic; every listener received every value fired while it was subscribed exactly once and nothing fired after its unsubscribe returned; the last value a live listener applied is the last value fired; non-trivial = >= 2 listeners with a non-LIFO unsubscribe, or a burst; distinct by operation sequence",
	func(s ESeq, o *ev.Obs) *ev.Failure {
		if s.Procs > 0 {
			defer runtime.GOMAXPROCS(runtime.GOMAXPROCS(s.Procs))
		}
		e := event.New[int]()
		releaseAll := make(chan struct{})
		defer close(releaseAll)
		blockers := 0
		var ls []*listener
		fired := 0
		nonLIFO, burst := false, false
		var pan any
		func() {
			defer func() { pan = recover() }()
			for _, op := range s.Ops {
				switch op.Kind {
				case "sub", "subblock":
					if len(ls) >= 8 {
						continue
					}
					l := &listener{id: len(ls), live: true, subAt: fired + 1, unsubAt: -1}
					blocks := op.Kind == "subblock"
					if blocks {
						blockers++
					}
					l.remove = e.Subscribe(func(v int) {
						l.mu.Lock()
						l.got = append(l.got, v)
						l.mu.Unlock()
						if blocks {
							// a component that is slow to take a change in (or stuck): the others must not wait for it
							<-releaseAll
						}
					})
					ls = append(ls, l)
				case "unsub":
					var live []*listener
					for _, l := range ls {
						if l.live {
							live = append(live, l)
						}
					}
					if len(live) == 0 {
						continue
					}
					l := live[op.Which%len(live)]
					if l != live[len(live)-1] {
						nonLIFO = true
					}
					l.remove()
					l.live = false
					l.unsubAt = fired
				case "fire":
					fired++
					e.Fire(fired)
				case "burst":
					burst = true
					for i := 0; i < op.N; i++ {
						fired++
						e.Fire(fired)
					}
				}
			}
		}()
		o.Classf("listeners:%d", len(ls))
		o.Classf("non-lifo-unsubscribe:%v", nonLIFO)
		o.Classf("burst:%v", burst)
		o.Classf("blocked-listener:%v", blockers > 0)
		o.NonTrivial = (len(ls) >= 2 && nonLIFO) || burst
		if pan != nil {
			return ev.Failf("event.unsubscribe-panic", "%s:: panic: %v", s, pan)
		}
		// quiescence: wait until every expected delivery has arrived (bounded)
		expected := func(l *listener) int {
			hi := fired
			if l.unsubAt >= 0 {
				hi = l.unsubAt
			}
			if hi < l.subAt {
				return 0
			}
			return hi - l.subAt + 1
		}
		deadline := time.Now().Add(2 * time.Second)
		for {
			done := true
			for _, l := range ls {
				if len(l.snapshot()) < expected(l) {
					done = false
				}
			}
			if done || time.Now().After(deadline) {
				break
			}
			time.Sleep(200 * time.Microsecond)
		}
		time.Sleep(2 * time.Millisecond) // let stray deliveries (which must not exist) show up
		var reorder *ev.Failure          // reported last: every other oracle is evaluated for every listener first
		for _, l := range ls {
			got := l.snapshot()
			count := map[int]int{}
			for _, v := range got {
				count[v]++
			}
			hi := fired
			if l.unsubAt >= 0 {
				hi = l.unsubAt
			}
			for v := l.subAt; v <= hi; v++ {
				if count[v] == 0 {
					return ev.Failf("event.delivery-missing", "%s:: listener #%d (subscribed before value %d, %s) never received value %d; got %v", s, l.id, l.subAt, liveness(l), v, clipInts(got))
				}
				if count[v] > 1 {
					return ev.Failf("event.delivery-duplicated", "%s:: listener #%d received value %d %d times", s, l.id, v, count[v])
				}
			}
			for v := range count {
				if v < l.subAt {
					return ev.Failf("event.delivery-before-subscribe", "%s:: listener #%d received value %d fired before it subscribed", s, l.id, v)
				}
				if l.unsubAt >= 0 && v > l.unsubAt {
					return ev.Failf("event.delivery-after-unsubscribe", "%s:: listener #%d received value %d although it had unsubscribed after value %d", s, l.id, v, l.unsubAt)
				}
			}
			if l.live && len(got) > 0 && got[len(got)-1] != fired && reorder == nil {
				reorder = ev.Failf("event.fire-reordered", "%s:: listener #%d applied value %d last although the last value fired is %d (tail of what it saw: %v)", s, l.id, got[len(got)-1], fired, clipInts(got))
			}
		}
		return reorder
	})

func liveness(l *listener) string {
	if l.live {
		return "still subscribed"
	}
	return fmt.Sprintf("unsubscribed after value %d", l.unsubAt)
}

func clipInts(v []int) []int {
	if len(v) > 12 {
		return v[len(v)-12:]
	}
	return v
}

func drawESeq(t *rapid.T) ESeq {
	s := ESeq{Procs: rapid.SampledFrom([]int{0, 0, 1, 2, 4}).Draw(t, "procs")}
	s.Ops = append(s.Ops, EOp{Kind: "sub"})
	for i := rapid.IntRange(2, 24).Draw(t, "n"); i > 0; i-- {
		switch rapid.IntRange(0, 9).Draw(t, "op") {
		case 0, 1, 2:
			kind := "sub"
			if rapid.IntRange(0, 4).Draw(t, "blocks") == 0 {
				kind = "subblock"
			}
			s.Ops = append(s.Ops, EOp{Kind: kind})
		case 3, 4:
			s.Ops = append(s.Ops, EOp{Kind: "unsub", Which: rapid.IntRange(0, 7).Draw(t, "which")})
		case 5, 6, 7:
			s.Ops = append(s.Ops, EOp{Kind: "fire"})
		default:
			s.Ops = append(s.Ops, EOp{Kind: "burst", N: rapid.IntRange(2, 50).Draw(t, "burst")})
		}
	}
	return s
}

func TestEventListeners(t *testing.T) {
	subEvent.CheckSalt(t, 1, ev.N(3000, 600000), drawESeq)
}
