package c19

import (
	"context"
	"fmt"
	"io"
	"log/slog"
	"net/http"
	"os"
	"path/filepath"
	"reservoir/logging"
	"strings"
	"sync"
	"testing"
	"time"
	"verifharness/internal/metricsx"
	"verifharness/internal/scen"

	"pgregory.net/rapid"
	"reservoir/cache"
	"reservoir/config"
	"reservoir/utils/bytesize"
	"reservoir/utils/duration"

	"verifharness/internal/ev"
	"verifharness/internal/origin"
	"verifharness/internal/px"
)

// Comp: several caches share one configuration; some are shut down (in a drawn order) between
// accepted limit changes; the survivors must follow the last limit.
type Comp struct {
	Backends []string `json:"backends"` // one cache per element
	Steps    []CStep  `json:"steps"`
	FinalUp  bool     `json:"final_up"` // last change raises (true) or lowers (false) the limit
	// BudgetAfter: after the last limit change an accepted memory_budget_percent change follows (to a value that
	// does not bind): the limit the caches follow must still be the last max_cache_size
	BudgetAfter bool `json:"budget_after,omitempty"`
	// Bundled: a restart is pending from the start (an accepted change of proxy.listen), and every limit change
	// comes in one document with two other settings that change too (cleanup_interval, logging.max_backups):
	// every setting of an accepted document is delivered to its listeners, whatever else the document or the
	// process state holds
	Bundled bool `json:"bundled,omitempty"`
}

type CStep struct {
	Kind    string `json:"kind"` // destroy | change (max_cache_size) | budget (memory_budget_percent)
	Which   int    `json:"which,omitempty"`
	PauseMs int    `json:"pause_ms,omitempty"` // pause after a change (0 = back-to-back)
}

const (
	entrySize = 1000
	lowLimit  = 5 * entrySize
	highLimit = 50 * entrySize
)

type ckey = cache.CacheKey

func keyN(c, i int) ckey { return cache.FromString(fmt.Sprintf("c19-%d-%d", c, i)) }

var subComp = ev.Register("components-follow-limit",
	"2-4 caches (memory/file) subscribed to one configuration; a drawn sequence of accepted max_cache_size changes (alternating low/high, some back-to-back), memory_budget_percent changes (to values that do not bind) and cache shut-downs in any order; optionally two more budget changes after the last limit change; optionally with a restart pending and every limit change bundled with two other changing settings in one document; after the last change and a quiescence pause every surviving cache is probed through its store-triggered eviction: filled to between the low and the high limit, one more store must (low) or must not (high) evict; shutting caches down must not fail; non-trivial = a cache subscribed earlier was shut down before a later change, with survivors; distinct by (backends, step sequence)",
	func(c Comp, o *ev.Obs) *ev.Failure {
		dir, err := os.MkdirTemp("", "verif-c19-")
		if err != nil {
			return ev.Failf("comp.harness", "%v", err)
		}
		defer os.RemoveAll(dir)
		old, _ := os.Getwd()
		os.MkdirAll(filepath.Join(dir, "var"), 0o755)
		os.Chdir(dir)
		defer os.Chdir(old)
		metricsx.Reset()
		cfg := config.NewDefault()
		px.SetBase(&cfg.Cache.MaxCacheSize, bytesize.ByteSize(highLimit))
		px.SetBase(&cfg.Cache.CleanupInterval, duration.Duration(time.Hour))
		ctx, cancel := context.WithCancel(context.Background())
		defer cancel()
		type comp struct {
			c     cache.Cache[int]
			alive bool
		}
		var comps []*comp
		for i, be := range c.Backends {
			if be == "file" {
				comps = append(comps, &comp{c: cache.NewFileCache[int](cfg, filepath.Join(dir, fmt.Sprintf("cache%d", i)), highLimit, time.Hour, 64, ctx), alive: true})
			} else {
				comps = append(comps, &comp{c: cache.NewMemoryCache[int](cfg, 50, highLimit, time.Hour, 64, ctx), alive: true})
			}
		}
		defer func() {
			for _, cp := range comps {
				if cp.alive {
					func() {
						defer func() { recover() }()
						cp.c.Destroy()
					}()
				}
			}
		}()
		limitDoc := func(v, n int) map[string]any {
			if !c.Bundled {
				return map[string]any{"cache": map[string]any{"max_cache_size": fmt.Sprintf("%dB", v)}}
			}
			return map[string]any{"cache": map[string]any{"max_cache_size": fmt.Sprintf("%dB", v), "cleanup_interval": fmt.Sprintf("%dh", 2+n%20)}, "logging": map[string]any{"max_backups": 1 + n%50}}
		}
		if c.Bundled {
			o.Class("bundled-with-restart-pending")
			if _, err := config.UpdatePartialFromConfig(cfg, map[string]any{"proxy": map[string]any{"listen": ":19199"}}); err != nil {
				return ev.Failf("comp.harness", "listen change rejected: %v", err)
			}
		}
		cur := highLimit
		budget := 50
		earlyDestroy := false
		changes := 0
		var pan any
		func() {
			defer func() { pan = recover() }()
			for _, st := range c.Steps {
				switch st.Kind {
				case "destroy":
					var alive []*comp
					for _, cp := range comps {
						if cp.alive {
							alive = append(alive, cp)
						}
					}
					if len(alive) <= 1 {
						continue
					}
					cp := alive[st.Which%len(alive)]
					if cp != alive[len(alive)-1] {
						earlyDestroy = true
					}
					cp.c.Destroy()
					cp.alive = false
				case "change":
					if cur == highLimit {
						cur = lowLimit
					} else {
						cur = highLimit
					}
					if _, err := config.UpdatePartialFromConfig(cfg, limitDoc(cur, changes)); err != nil {
						panic(fmt.Sprintf("accepted change rejected: %v", err))
					}
					changes++
					time.Sleep(time.Duration(st.PauseMs) * time.Millisecond)
				case "budget":
					budget = 30 + (budget+7)%60
					if _, err := config.UpdatePartialFromConfig(cfg, map[string]any{"cache": map[string]any{"memory": map[string]any{"memory_budget_percent": budget}}}); err != nil {
						panic(fmt.Sprintf("accepted change rejected: %v", err))
					}
					time.Sleep(time.Duration(st.PauseMs) * time.Millisecond)
				}
			}
		}()
		if pan != nil {
			return ev.Failf("comp.shutdown-or-change-panicked", "backends %v steps %v: %v", c.Backends, c.Steps, pan)
		}
		// make the final value deterministic: one more change towards FinalUp if needed, after a pause
		time.Sleep(20 * time.Millisecond)
		want := lowLimit
		if c.FinalUp {
			want = highLimit
		}
		// the last change is always an isolated one (back-to-back changes are the reorder finding's subject):
		// if the configuration already has the wanted value, move away first, wait, then move back
		set := func(v int) *ev.Failure {
			if _, err := config.UpdatePartialFromConfig(cfg, limitDoc(v, changes)); err != nil {
				return ev.Failf("comp.harness", "%v", err)
			}
			changes++
			return nil
		}
		if cur == want {
			other := lowLimit + highLimit - want
			if f := set(other); f != nil {
				return f
			}
			time.Sleep(30 * time.Millisecond)
		}
		if f := set(want); f != nil {
			return f
		}
		time.Sleep(30 * time.Millisecond) // quiescence for the asynchronous notification of the last, isolated change
		if c.BudgetAfter {
			for _, pct := range []int{60, 70} {
				if _, err := config.UpdatePartialFromConfig(cfg, map[string]any{"cache": map[string]any{"memory": map[string]any{"memory_budget_percent": pct}}}); err != nil {
					return ev.Failf("comp.harness", "%v", err)
				}
				time.Sleep(30 * time.Millisecond)
			}
		}
		o.Classf("budget-change-after-limit:%v", c.BudgetAfter)
		o.Classf("caches:%d", len(c.Backends))
		o.Classf("early-destroy:%v", earlyDestroy)
		o.Classf("final:%s", map[bool]string{true: "raised", false: "lowered"}[c.FinalUp])
		survivors := 0
		far := time.Now().Add(time.Hour)
		for ci, cp := range comps {
			if !cp.alive {
				continue
			}
			survivors++
			// fill to 10 entries: between the low (5) and the high (50) limit
			for i := 0; i < 10; i++ {
				e, err := cp.c.Cache(keyN(ci, i), bytesReader(entrySize), far, i)
				if err == nil && e.Data != nil {
					e.Data.Close()
				}
			}
			present := 0
			for i := 0; i < 10; i++ {
				if _, _, err := cp.c.GetMetadata(keyN(ci, i)); err == nil {
					present++
				}
			}
			evicted := present < 10
			if c.FinalUp && evicted {
				return ev.Failf("comp.follows-older-value:limit-raised", "backends %v steps %v: the limit was last raised to %d but surviving cache %d (%s) still evicts at the old low limit (%d of 10 entries left)", c.Backends, c.Steps, highLimit, ci, c.Backends[ci], present)
			}
			if !c.FinalUp && !evicted {
				return ev.Failf("comp.follows-older-value:limit-lowered", "backends %v steps %v: the limit was last lowered to %d but surviving cache %d (%s) keeps all 10 entries (%d bytes) as under the old limit", c.Backends, c.Steps, lowLimit, ci, c.Backends[ci], 10*entrySize)
			}
		}
		o.NonTrivial = earlyDestroy && survivors > 0 && changes > 0
		return nil
	})

var ioEOF = io.EOF

func bytesReader(n int) *fixedReader { return &fixedReader{left: n} }

type fixedReader struct{ left int }

func (f *fixedReader) Read(p []byte) (int, error) {
	if f.left == 0 {
		return 0, ioEOF
	}
	n := len(p)
	if n > f.left {
		n = f.left
	}
	for i := 0; i < n; i++ {
		p[i] = 'x'
	}
	f.left -= n
	return n, nil
}

func TestComponentsFollowLimit(t *testing.T) {
	subComp.CheckSalt(t, 2, ev.N(120, 8000), func(t *rapid.T) Comp {
		var c Comp
		for i := rapid.IntRange(2, 4).Draw(t, "caches"); i > 0; i-- {
			c.Backends = append(c.Backends, rapid.SampledFrom([]string{"memory", "memory", "file"}).Draw(t, "backend"))
		}
		for i := rapid.IntRange(1, 6).Draw(t, "steps"); i > 0; i-- {
			if rapid.IntRange(0, 2).Draw(t, "kind") == 0 {
				c.Steps = append(c.Steps, CStep{Kind: "destroy", Which: rapid.IntRange(0, 3).Draw(t, "which")})
			} else if rapid.IntRange(0, 3).Draw(t, "budget") == 0 {
				c.Steps = append(c.Steps, CStep{Kind: "budget", PauseMs: rapid.SampledFrom([]int{0, 5}).Draw(t, "pause")})
			} else {
				c.Steps = append(c.Steps, CStep{Kind: "change", PauseMs: rapid.SampledFrom([]int{0, 0, 5}).Draw(t, "pause")})
			}
		}
		c.FinalUp = rapid.Bool().Draw(t, "final-up")
		c.BudgetAfter = rapid.Bool().Draw(t, "budget-after")
		c.Bundled = rapid.IntRange(0, 2).Draw(t, "bundled") == 0
		return c
	})
}

// ---------------------------------------------------------------- switches are read live

type Switch struct {
	Backend string `json:"backend"`
	Flips   []bool `json:"flips"` // successive values of ignore_cache_control
	// successive values of the two retry switches, set together with Flips[i]
	Retry416     []bool `json:"retry_416,omitempty"`
	RetryInvalid []bool `json:"retry_invalid,omitempty"`
	// RejectedAfter[i]: after the i-th accepted change a few updates follow that repeat the three switches as they
	// are and add an ill-typed value for another setting: they are refused as a whole and change nothing
	RejectedAfter []bool `json:"rejected_after,omitempty"`
}

var subSwitch = ev.Register("switches-live",
	"a running proxy whose ignore_cache_control, retry_on_range_416 and retry_on_invalid_range switches are changed through accepted updates (1-5 successive settings of all three, optionally followed by updates that are refused as a whole); after every change: a fresh no-store resource requested twice (fetched twice when directives are obeyed, served from the store the second time when they are ignored); a ranged request to an origin that refuses ranges with 416 (retried without Range when retry_on_range_416 is on - the origin sees two requests -, relayed as 416 after one request when it is off); an out-of-bounds Range on a stored resource of an origin that ignores Range (the full 200 when retry_on_invalid_range is on, 416 when it is off); non-trivial = at least two changes; distinct by setting sequence",
	func(c Switch, o *ev.Obs) *ev.Failure {
		dir, _ := os.MkdirTemp("", "verif-c19s-")
		defer os.RemoveAll(dir)
		old, _ := os.Getwd()
		os.MkdirAll(filepath.Join(dir, "var"), 0o755)
		os.Chdir(dir)
		defer os.Chdir(old)
		org := origin.New(func(w http.ResponseWriter, r *http.Request, _ []byte, e *origin.Entry) {
			e.Status = 200
			switch {
			case strings.HasPrefix(r.URL.Path, "/x"): // refuses ranged requests
				if r.Header.Get("Range") != "" {
					e.Status = 416
					w.Header().Set("Content-Range", "bytes */10")
					w.WriteHeader(416)
					return
				}
				w.Header().Set("Cache-Control", "max-age=600")
				w.Write([]byte("0123456789"))
			case strings.HasPrefix(r.URL.Path, "/y"): // ignores Range
				w.Header().Set("Cache-Control", "max-age=600")
				w.Write([]byte("0123456789"))
			default:
				w.Header().Set("Cache-Control", "no-store")
				w.Write([]byte("body of " + r.URL.Path))
			}
		})
		defer org.Close()
		env := px.New(px.Opts{Backend: c.Backend})
		defer env.Close()
		o.NonTrivial = len(c.Flips) >= 2
		for i, v := range c.Flips {
			r416, rinv := true, false
			if i < len(c.Retry416) {
				r416 = c.Retry416[i]
			}
			if i < len(c.RetryInvalid) {
				rinv = c.RetryInvalid[i]
			}
			if _, err := config.UpdatePartialFromConfig(env.Cfg, map[string]any{"proxy": map[string]any{"retry_on_range_416": r416, "retry_on_invalid_range": rinv, "cache_policy": map[string]any{"ignore_cache_control": v}}}); err != nil {
				return ev.Failf("switch.update-rejected", "%v", err)
			}
			if i < len(c.RejectedAfter) && c.RejectedAfter[i] {
				o.Class("rejected-update-between")
				for k := 0; k < 6; k++ { // the order in which the keys of an update are taken up is random
					if _, err := config.UpdatePartialFromConfig(env.Cfg, map[string]any{"proxy": map[string]any{"retry_on_range_416": r416, "retry_on_invalid_range": rinv, "listen": 17 + k,
						"cache_policy": map[string]any{"ignore_cache_control": v, "default_max_age": []int{k}}}}); err == nil {
						return ev.Failf("switch.ill-typed-update-accepted", "an update with a number for proxy.listen was accepted")
					}
				}
			}
			state := fmt.Sprintf("settings so far ignore_cache_control=%v retry_on_range_416=%v retry_on_invalid_range=%v, now (%v, %v, %v)", c.Flips[:i+1], c.Retry416, c.RetryInvalid, v, r416, rinv)
			path := fmt.Sprintf("/s%d", i)
			for k := 0; k < 2; k++ {
				if _, err := env.Plain(px.Req{Method: "GET", Host: org.Addr(), Target: path, ReqID: fmt.Sprintf("s%d-%d", i, k)}); err != nil {
					return ev.Failf("switch.no-response", "%v", err)
				}
			}
			second := len(org.ByReqID(fmt.Sprintf("s%d-1", i)))
			if v && second != 0 {
				return ev.Failf("switch.not-followed:ignore-on", "flips %v: after ignore_cache_control was set to true a no-store resource was fetched from the origin again on its second request", c.Flips[:i+1])
			}
			if !v && second == 0 {
				return ev.Failf("switch.not-followed:ignore-off", "flips %v: after ignore_cache_control was set to false a no-store resource was served from the store", c.Flips[:i+1])
			}
			// ---- retry_on_range_416
			xid := fmt.Sprintf("x%d", i)
			rx, err := env.Plain(px.Req{Method: "GET", Host: org.Addr(), Target: fmt.Sprintf("/x%d", i), ReqID: xid, Headers: []px.H{{K: "Range", V: "bytes=2-5"}}})
			if err != nil {
				return ev.Failf("switch.no-response", "%v", err)
			}
			seen := org.ByReqID(xid)
			if r416 && len(seen) < 2 {
				return ev.Failf("switch.not-followed:retry-416-on", "%s: the origin refused the ranged request with 416 and was not asked again without Range (client got %d)", state, rx.Status)
			}
			if !r416 && (len(seen) != 1 || rx.Status != 416) {
				return ev.Failf("switch.not-followed:retry-416-off", "%s: retry_on_range_416 is off, yet the origin was asked %d times and the client got %d instead of the origin's 416", state, len(seen), rx.Status)
			}
			// ---- retry_on_invalid_range
			ypath := fmt.Sprintf("/y%d", i)
			if _, err := env.Plain(px.Req{Method: "GET", Host: org.Addr(), Target: ypath, ReqID: "yprime"}); err != nil {
				return ev.Failf("switch.no-response", "%v", err)
			}
			ry, err := env.Plain(px.Req{Method: "GET", Host: org.Addr(), Target: ypath, ReqID: fmt.Sprintf("y%d", i), Headers: []px.H{{K: "Range", V: "bytes=50-60"}}})
			if err != nil {
				return ev.Failf("switch.no-response", "%v", err)
			}
			if rinv && ry.Status != 200 {
				return ev.Failf("switch.not-followed:retry-invalid-on", "%s: an out-of-bounds Range on a stored 10-byte resource got %d, the full 200 was expected", state, ry.Status)
			}
			if !rinv && ry.Status != 416 {
				return ev.Failf("switch.not-followed:retry-invalid-off", "%s: an out-of-bounds Range on a stored 10-byte resource got %d, 416 was expected", state, ry.Status)
			}
		}
		return nil
	})

func TestSwitchesLive(t *testing.T) {
	subSwitch.CheckSalt(t, 3, ev.N(40, 2000), func(t *rapid.T) Switch {
		c := Switch{Backend: rapid.SampledFrom([]string{"memory", "file"}).Draw(t, "backend"), Flips: rapid.SliceOfN(rapid.Bool(), 1, 5).Draw(t, "flips")}
		for range c.Flips {
			c.Retry416 = append(c.Retry416, rapid.Bool().Draw(t, "retry416"))
			c.RetryInvalid = append(c.RetryInvalid, rapid.Bool().Draw(t, "retry-invalid"))
			c.RejectedAfter = append(c.RejectedAfter, rapid.IntRange(0, 2).Draw(t, "rejected-after") == 0)
		}
		return c
	})
}

// ---------------------------------------------------------------- the log level follows the setting

type Levels struct {
	Seq []string `json:"seq"`
}

var loggingOnce sync.Once
var loggingCfg *config.Config

var subLevel = ev.Register("log-level-follows",
	"the process-wide logger (logging.Init) is attached to a configuration and receives 1-5 accepted logging.level updates, each followed by a short pause; oracle: afterwards the default logger is enabled exactly for records at or above the last level; non-trivial = >= 2 updates; distinct by level sequence",
	func(c Levels, o *ev.Obs) *ev.Failure {
		dir, _ := os.MkdirTemp("", "verif-c19l-")
		defer os.RemoveAll(dir)
		old, _ := os.Getwd()
		os.MkdirAll(filepath.Join(dir, "var"), 0o755)
		os.Chdir(dir)
		defer os.Chdir(old)
		loggingOnce.Do(func() {
			loggingCfg = config.NewDefault()
			px.SetBase(&loggingCfg.Logging.File, filepath.Join(os.TempDir(), fmt.Sprintf("verif-c19-log-%d.log", os.Getpid())))
			logging.Init(loggingCfg)
		})
		defer os.Remove(loggingCfg.Logging.File.Read())
		o.NonTrivial = len(c.Seq) >= 2
		var last slog.Level
		for _, l := range c.Seq {
			if _, err := config.UpdatePartialFromConfig(loggingCfg, map[string]any{"logging": map[string]any{"level": l}}); err != nil {
				return ev.Failf("level.update-rejected", "%v", err)
			}
			last.UnmarshalText([]byte(l))
			time.Sleep(15 * time.Millisecond)
		}
		time.Sleep(20 * time.Millisecond)
		for _, probe := range []slog.Level{slog.LevelDebug - 4, slog.LevelDebug, slog.LevelInfo, slog.LevelWarn, slog.LevelError, slog.LevelError + 4} {
			if got, want := slog.Default().Enabled(context.Background(), probe), probe >= last; got != want {
				return ev.Failf("level.not-followed", "levels %v: after the last update to %v a record at level %v is enabled=%v", c.Seq, last, probe, got)
			}
		}
		return nil
	})

func TestLogLevelFollows(t *testing.T) {
	subLevel.CheckSalt(t, 4, ev.N(40, 2000), func(t *rapid.T) Levels {
		return Levels{Seq: rapid.SliceOfN(rapid.SampledFrom([]string{"DEBUG", "INFO", "WARN", "ERROR", "DEBUG-4", "ERROR+4"}), 1, 5).Draw(t, "levels")}
	})
}

var subPolicy = ev.Register("policy-live",
	"1-6 accepted run-time changes of ignore_cache_control / force_default_max_age / default_max_age on a RUNNING proxy; after each change a fresh no-store resource and a fresh max-age=50 resource are requested twice; oracle: the no-store one is reused exactly when directives are ignored, the other one is a HIT whose ttl is about 50 s, or about the current default when the default is forced; non-trivial = >= 2 changes; distinct by change sequence",
	scen.PolicyLive)

func TestPolicyLive(t *testing.T) {
	subPolicy.CheckSalt(t, 5, ev.N(60, 3000), scen.DrawPolicy)
}
