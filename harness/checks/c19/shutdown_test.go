package c19

// A component that was shut down must not be notified of later changes - whatever the order in which
// its context was cancelled and it was destroyed. The cache's listeners are internal, so the oracle
// looks at what a notification to a dead component leaves behind: a notifier goroutine parked inside
// the component's listener for good.

import (
	"context"
	"fmt"
	"os"
	"path/filepath"
	"reflect"
	"regexp"
	"runtime"
	"strings"
	"testing"
	"time"

	"pgregory.net/rapid"
	"reservoir/cache"
	"reservoir/config"
	"reservoir/utils/bytesize"
	"reservoir/utils/duration"

	"verifharness/internal/ev"
	"verifharness/internal/metricsx"
	"verifharness/internal/px"
)

type Shutdown struct {
	Backend string   `json:"backend"`
	Order   string   `json:"order"` // destroy | cancel-destroy | destroy-cancel
	GapMs   int      `json:"gap_ms"`
	Changes []string `json:"changes"` // interval | limit | budget
}

var reGoroutine = regexp.MustCompile(`^goroutine (\d+) \[([^\]]+)\]`)

// parkedListeners returns the ids of goroutines waiting (send / receive / lock) inside a listener that
// one of the cache components registered on the configuration.
func parkedListeners() map[string]string {
	buf := make([]byte, 1<<20)
	for {
		n := runtime.Stack(buf, true)
		if n < len(buf) {
			buf = buf[:n]
			break
		}
		buf = make([]byte, 2*len(buf))
	}
	out := map[string]string{}
	for _, g := range strings.Split(string(buf), "\n\n") {
		m := reGoroutine.FindStringSubmatch(g)
		if m == nil || !(strings.Contains(m[2], "chan send") || strings.Contains(m[2], "chan receive") || strings.Contains(m[2], "select") || strings.Contains(m[2], "sync.")) {
			continue
		}
		// a notifier goroutine: started by Event.Fire, currently inside reservoir/cache code
		if strings.Contains(g, "reservoir/utils/event.") && strings.Contains(g, "reservoir/cache.") {
			out[m[1]] = g
		}
	}
	return out
}

// listeners counts the functions registered on a setting's change event (a read-only look at the length
// of the event's subscriber list; -1 if the list is not where the harness expects it).
func listeners(prop any) (n int) {
	defer func() {
		if recover() != nil {
			n = -1
		}
	}()
	return reflect.ValueOf(prop).Elem().FieldByName("onChange").FieldByName("subscribers").Len()
}

func listenerCounts(cfg *config.Config) [3]int {
	return [3]int{listeners(&cfg.Cache.CleanupInterval), listeners(&cfg.Cache.MaxCacheSize), listeners(&cfg.Cache.Memory.MemoryBudgetPercent)}
}

var subShutdown = ev.Register("shutdown-silences-listeners",
	"a cache (memory/file) with its own context next to a surviving cache on the same configuration is shut down in one of the orders Destroy / cancel the context then Destroy / Destroy then cancel; then 2-5 accepted changes of cleanup_interval, max_cache_size and memory_budget_percent follow, spaced 30 ms; oracle: after quiescence the three settings have exactly the surviving cache's listeners registered (length of each change event's subscriber list, read by reflection) and no notifier goroutine (started by Event.Fire) stays parked inside a cache listener across two goroutine dumps 600 ms apart - a notification to a component that is gone has nobody to take it; Destroy does not panic or hang; non-trivial = at least two changes of the same setting after the shut-down; distinct by (backend, order, changes)",
	func(c Shutdown, o *ev.Obs) *ev.Failure {
		dir, err := os.MkdirTemp("", "verif-c19s-")
		if err != nil {
			return ev.Failf("comp.harness", "%v", err)
		}
		defer os.RemoveAll(dir)
		old, _ := os.Getwd()
		os.MkdirAll(filepath.Join(dir, "var"), 0o755)
		os.Chdir(dir)
		defer os.Chdir(old)
		metricsx.Reset()
		cfg := config.NewDefault()
		px.SetBase(&cfg.Cache.MaxCacheSize, bytesize.ByteSize(1<<20))
		px.SetBase(&cfg.Cache.CleanupInterval, duration.Duration(time.Hour))
		mk := func(i int, ctx context.Context) cache.Cache[int] {
			if c.Backend == "file" {
				return cache.NewFileCache[int](cfg, filepath.Join(dir, fmt.Sprintf("cache%d", i)), 1<<20, time.Hour, 16, ctx)
			}
			return cache.NewMemoryCache[int](cfg, 50, 1<<20, time.Hour, 16, ctx)
		}
		sctx, scancel := context.WithCancel(context.Background())
		defer scancel()
		survivor := mk(0, sctx)
		defer survivor.Destroy()
		time.Sleep(5 * time.Millisecond)
		alone := listenerCounts(cfg) // the survivor's listeners only
		vctx, vcancel := context.WithCancel(context.Background())
		defer vcancel()
		victim := mk(1, vctx)
		if both := listenerCounts(cfg); both == alone || both[0] < 0 || both[1] < 0 || both[2] < 0 {
			return ev.Failf("comp.harness", "listener counts unreadable or unchanged by a second cache: %v -> %v", alone, both)
		}
		time.Sleep(5 * time.Millisecond)
		gap := time.Duration(c.GapMs) * time.Millisecond
		done := make(chan any, 1)
		go func() {
			defer func() { done <- recover() }()
			switch c.Order {
			case "destroy":
				victim.Destroy()
			case "cancel-destroy":
				vcancel()
				time.Sleep(gap)
				victim.Destroy()
			case "destroy-cancel":
				victim.Destroy()
				time.Sleep(gap)
				vcancel()
			}
		}()
		select {
		case p := <-done:
			if p != nil {
				return ev.Failf("shutdown.panic:"+c.Order, "shutting the cache down (%s) panicked: %v", c.Order, p)
			}
		case <-time.After(10 * time.Second):
			return ev.Failf("shutdown.hang:"+c.Order, "shutting the cache down (%s) did not return within 10 s", c.Order)
		}
		time.Sleep(10 * time.Millisecond)
		baseline := parkedListeners() // left behind by earlier cases of this process, if any: not this case's business
		seen := map[string]int{}
		n := 0
		for _, ch := range c.Changes {
			n++
			var doc map[string]any
			switch ch {
			case "interval":
				doc = map[string]any{"cache": map[string]any{"cleanup_interval": fmt.Sprintf("%dm", 30+n)}}
			case "limit":
				doc = map[string]any{"cache": map[string]any{"max_cache_size": fmt.Sprintf("%dB", (1<<20)+n*1000)}}
			default:
				doc = map[string]any{"cache": map[string]any{"memory": map[string]any{"memory_budget_percent": 40 + n}}}
			}
			if _, err := config.UpdatePartialFromConfig(cfg, doc); err != nil {
				return ev.Failf("comp.harness", "accepted change rejected: %v", err)
			}
			seen[ch]++
			if seen[ch] >= 2 {
				o.NonTrivial = true
			}
			time.Sleep(30 * time.Millisecond)
		}
		o.Class("order:" + c.Order)
		o.Class("backend:" + c.Backend)
		time.Sleep(300 * time.Millisecond)
		// whoever is still registered on a setting is notified of its next change: after the shut-down only the
		// survivor's listeners may be left
		if left := listenerCounts(cfg); left != alone {
			return ev.Failf("event.still-subscribed-after-shutdown:"+c.Backend, "%s cache shut down by %q: listeners on (cleanup_interval, max_cache_size, memory_budget_percent) are %v, the surviving cache alone has %v - the component that is gone is still notified of every change of that setting", c.Backend, c.Order, left, alone)
		}
		first := parkedListeners()
		if len(first) == 0 {
			return nil
		}
		time.Sleep(600 * time.Millisecond)
		second := parkedListeners()
		for id, g := range second {
			if _, old := baseline[id]; old {
				continue
			}
			if _, both := first[id]; both {
				return ev.Failf("event.notified-after-shutdown:"+c.Order, "%s cache shut down by %q, then changes %v: a notification is still waiting inside a cache listener %d ms after the last change - it was addressed to the component that is gone:\n%s", c.Backend, c.Order, c.Changes, 900, clipN(g, 1200))
			}
		}
		return nil
	})

func clipN(s string, n int) string {
	if len(s) > n {
		return s[:n] + "…"
	}
	return s
}

func TestShutdownSilencesListeners(t *testing.T) {
	subShutdown.CheckSalt(t, 17, ev.N(24, 800), func(t *rapid.T) Shutdown {
		c := Shutdown{
			Backend: rapid.SampledFrom([]string{"memory", "file"}).Draw(t, "backend"),
			Order:   rapid.SampledFrom([]string{"destroy", "cancel-destroy", "cancel-destroy", "destroy-cancel"}).Draw(t, "order"),
			GapMs:   rapid.SampledFrom([]int{0, 5, 30}).Draw(t, "gap"),
		}
		for i := rapid.IntRange(2, 5).Draw(t, "changes"); i > 0; i-- {
			c.Changes = append(c.Changes, rapid.SampledFrom([]string{"interval", "interval", "limit", "budget"}).Draw(t, "change"))
		}
		return c
	})
}
