package c19

// Every accepted change of a setting reaches that setting's listeners, whatever the new value is - also
// when it is the type's zero value (false, 0, "", INFO), also as the first change the process sees.

import (
	"encoding/json"
	"fmt"
	"os"
	"path/filepath"
	"sync"
	"testing"
	"time"

	"pgregory.net/rapid"
	"reservoir/config"

	"verifharness/internal/cfgkit"
	"verifharness/internal/ev"
)

type Delivered struct {
	Updates []string `json:"updates"` // JSON documents, applied in order
}

var zeroish = map[string][]any{
	"logging.level":                           {"INFO", "DEBUG", "WARN"},
	"logging.to_stdout":                       {false},
	"logging.compress":                        {false, true},
	"logging.max_backups":                     {0, 1, 7},
	"logging.file":                            {"", "x.log"},
	"cache.memory.memory_budget_percent":      {0, 10, 75},
	"proxy.retry_on_range_416":                {false, true},
	"proxy.retry_on_invalid_range":            {false, true},
	"proxy.upstream_default_https":            {false, true},
	"proxy.cache_policy.ignore_cache_control": {false, true},
	"webserver.dashboard_disabled":            {false, true},
}

var zeroishPaths = func() []string {
	var out []string
	for p := range zeroish {
		out = append(out, p)
	}
	return out
}()

var subDelivered = ev.Register("every-change-delivered",
	"a fresh configuration with a recording listener on every setting receives 1-6 accepted update documents of 1-3 settings each, drawn from values that include each type's zero value (false, 0, \"\", INFO) and the defaults; oracle: after each update (and a pause for the asynchronous delivery) every setting whose value the update changed has told its listeners exactly that value last; a setting the update did not change tells nothing; non-trivial = a change to a zero value happened; distinct by update sequence",
	func(c Delivered, o *ev.Obs) *ev.Failure {
		dir, _ := os.MkdirTemp("", "verif-c19d-")
		defer os.RemoveAll(dir)
		old, _ := os.Getwd()
		os.MkdirAll(filepath.Join(dir, "var"), 0o755)
		os.Chdir(dir)
		defer os.Chdir(old)
		cfg := config.NewDefault()
		var mu sync.Mutex
		told := map[string][]string{}
		cfgkit.SubscribeAll(cfg, func(path, value string) {
			mu.Lock()
			told[path] = append(told[path], value)
			mu.Unlock()
		})
		for i, u := range c.Updates {
			var doc map[string]any
			json.Unmarshal([]byte(u), &doc)
			before := cfgkit.Vector(cfg)
			mu.Lock()
			told = map[string][]string{}
			mu.Unlock()
			if _, err := config.UpdatePartialFromConfig(cfg, doc); err != nil {
				continue // e.g. api/dashboard coupling: refused updates are C18's subject
			}
			time.Sleep(15 * time.Millisecond)
			after := cfgkit.Vector(cfg)
			mu.Lock()
			for p, v := range after {
				got := told[p]
				switch {
				case before[p] != v && (len(got) == 0 || got[len(got)-1] != v):
					mu.Unlock()
					if v == "false" || v == "0" || v == "" {
						o.NonTrivial = true
					}
					return ev.Failf("event.change-not-delivered", "update %d %s was accepted and changed %s from %q to %q, but its listeners were told %q", i, u, p, before[p], v, got)
				case before[p] != v && (v == "false" || v == "0" || v == ""):
					o.NonTrivial = true
				}
			}
			mu.Unlock()
		}
		return nil
	})

func TestEveryChangeDelivered(t *testing.T) {
	subDelivered.CheckSalt(t, 37, ev.N(150, 8000), func(t *rapid.T) Delivered {
		var c Delivered
		for i := rapid.IntRange(1, 6).Draw(t, "updates"); i > 0; i-- {
			d := cfgkit.Doc{}
			for _, p := range rapid.SliceOfNDistinct(rapid.SampledFrom(zeroishPaths), 1, 3, rapid.ID[string]).Draw(t, "paths") {
				cfgkit.Set(d, p, rapid.SampledFrom(zeroish[p]).Draw(t, "value"))
			}
			b, _ := json.Marshal(d)
			c.Updates = append(c.Updates, string(b))
		}
		return c
	})
}

var _ = fmt.Sprint
