package c11

import (
	"crypto/ecdsa"
	"crypto/tls"
	"crypto/x509"
	"fmt"
	"net"
	"os"
	"strings"
	"sync"
	"testing"
	"time"

	"pgregory.net/rapid"
	"reservoir/proxy/certs"

	"verifharness/internal/ev"
	"verifharness/internal/px"
)

func TestMain(m *testing.M)   { ev.Main(m, "C11") }
func TestReplay(t *testing.T) { ev.ReplayWitnesses(t) }

type Step struct {
	Kind string `json:"kind"` // issue | burst | crowd | expire
	Host int    `json:"host"`
	N    int    `json:"n,omitempty"`
	AgoS int    `json:"ago_s,omitempty"`
}

type Hist struct {
	Hosts []string `json:"hosts"` // host:port strings
	Steps []Step   `json:"steps"`
}

func hostKind(hp string) string {
	h, _, err := net.SplitHostPort(hp)
	if err != nil {
		return "invalid"
	}
	ip := net.ParseIP(h)
	switch {
	case ip == nil:
		if strings.ToLower(h) != h {
			return "dns-mixed-case"
		}
		return "dns"
	case ip.To4() != nil && !strings.Contains(h, ":"):
		return "ipv4"
	default:
		return "ipv6"
	}
}

// checkLeaf verifies one returned certificate for host against the CA pool.
func checkLeaf(c *tls.Certificate, host string, pool *x509.CertPool) string {
	if c == nil || len(c.Certificate) == 0 {
		return "no-certificate"
	}
	leaf, err := x509.ParseCertificate(c.Certificate[0])
	if err != nil {
		return "unparseable-leaf"
	}
	now := time.Now()
	if now.Before(leaf.NotBefore.Add(-time.Second)) || now.After(leaf.NotAfter) {
		return "outside-validity"
	}
	if _, err := leaf.Verify(x509.VerifyOptions{DNSName: host, Roots: pool, CurrentTime: now, KeyUsages: []x509.ExtKeyUsage{x509.ExtKeyUsageServerAuth}}); err != nil {
		return "does-not-verify: " + err.Error()
	}
	// SANs are exactly {host}
	if ip := net.ParseIP(host); ip != nil {
		if len(leaf.DNSNames) != 0 || len(leaf.IPAddresses) != 1 || !leaf.IPAddresses[0].Equal(ip) {
			return fmt.Sprintf("wrong-sans: dns %v ip %v", leaf.DNSNames, leaf.IPAddresses)
		}
	} else if len(leaf.IPAddresses) != 0 || len(leaf.DNSNames) != 1 || !strings.EqualFold(strings.TrimSuffix(leaf.DNSNames[0], "."), strings.TrimSuffix(host, ".")) {
		// (a fully qualified spelling and the plain one name the same host: either form in the SAN is the host's own)
		return fmt.Sprintf("wrong-sans: dns %v ip %v", leaf.DNSNames, leaf.IPAddresses)
	}
	priv, ok := c.PrivateKey.(*ecdsa.PrivateKey)
	if !ok {
		return "private-key-type"
	}
	pub, ok := leaf.PublicKey.(*ecdsa.PublicKey)
	if !ok || !pub.Equal(&priv.PublicKey) {
		return "key-mismatch"
	}
	if c.Leaf != nil && (c.Leaf.NotAfter.Before(now)) {
		return "parsed-leaf-expired"
	}
	return ""
}

var sub = ev.Register("cert-histories",
	"histories over 1-3 CONNECT targets (DNS names of 1-6 labels in mixed case with digits, hyphens and xn-- labels, IPv4, bracketed IPv6, any port) of issue / concurrent burst of n <= 16 first requests for one host / crowd of n <= 16 concurrent first requests for n different new hosts (names, addresses or alternating; 3 rounds) / expiry injected by hook H5 by a drawn margin (0 s to a year, on both sides of the 240 h certificate lifetime), against a fresh CA loaded through certs.NewPrivateCA; oracle (crypto/x509): every returned leaf chains to the CA for exactly that host, is inside its validity, has SANs = {host}, matches its private key; two issues without an expiry between return the same certificate; after an expiry a new valid leaf is returned and then reused; after a burst every returned leaf is valid and later calls return one certificate; in a crowd every host gets a leaf valid for itself, also from the cache afterwards; non-trivial = history has a reuse and an expiry or burst; distinct by (host kinds, history shape)",
	func(h Hist, o *ev.Obs) *ev.Failure {
		dir, err := os.MkdirTemp("", "verif-c11-")
		if err != nil {
			return ev.Failf("cert.harness", "%v", err)
		}
		defer os.RemoveAll(dir)
		cf, kf, caCert, err := px.WriteCA(dir, 24*time.Hour)
		if err != nil {
			return ev.Failf("cert.harness", "%v", err)
		}
		ca, err := certs.NewPrivateCA(cf, kf)
		if err != nil {
			return ev.Failf("cert.harness", "NewPrivateCA: %v", err)
		}
		pool := x509.NewCertPool()
		pool.AddCert(caCert)
		last := map[string]*tls.Certificate{}
		reuse, churn := false, false
		shape := ""
		for _, hp := range h.Hosts {
			o.Class("host:" + hostKind(hp))
		}
		for i, st := range h.Steps {
			hp := h.Hosts[st.Host%len(h.Hosts)]
			host, _, _ := net.SplitHostPort(hp)
			hi := host // certificates are per host, whatever the port
			shape += st.Kind[:1]
			switch st.Kind {
			case "issue":
				c, err := ca.GetCertForHost(hp)
				if err != nil {
					return ev.Failf("cert.issue-failed:"+hostKind(hp), "step %d: GetCertForHost(%q): %v", i, hp, err)
				}
				if why := checkLeaf(c, host, pool); why != "" {
					return ev.Failf("cert.invalid:"+strings.SplitN(why, ":", 2)[0]+":"+hostKind(hp), "step %d: certificate for %q: %s", i, hp, why)
				}
				if prev, ok := last[hi]; ok {
					reuse = true
					if prev != c {
						return ev.Failf("cert.not-reused", "step %d: %q was issued a second certificate although the first is still valid", i, hp)
					}
				}
				last[hi] = c
			case "burst":
				churn = true
				res := make([]*tls.Certificate, st.N)
				errs := make([]error, st.N)
				var wg sync.WaitGroup
				for g := 0; g < st.N; g++ {
					wg.Add(1)
					go func(g int) {
						defer wg.Done()
						res[g], errs[g] = ca.GetCertForHost(hp)
					}(g)
				}
				wg.Wait()
				for g := range res {
					if errs[g] != nil {
						return ev.Failf("cert.issue-failed:burst", "step %d: burst member %d for %q: %v", i, g, hp, errs[g])
					}
					if why := checkLeaf(res[g], host, pool); why != "" {
						return ev.Failf("cert.invalid:"+strings.SplitN(why, ":", 2)[0]+":burst", "step %d: burst member %d for %q: %s", i, g, hp, why)
					}
				}
				a, _ := ca.GetCertForHost(hp)
				b, _ := ca.GetCertForHost(hp)
				if a != b || a == nil {
					return ev.Failf("cert.not-reused:after-burst", "step %d: after a burst of %d first requests for %q later calls do not return one certificate", i, st.N, hp)
				}
				last[hi] = a
			case "crowd":
				// first requests for n different new hosts at the same moment: each tunnel must still get the
				// certificate of its own host (shared template / buffer state between concurrent issues)
				churn = true
				for round := 0; round < 3; round++ {
					hosts := make([]string, st.N)
					for g := range hosts {
						switch {
						case st.AgoS == 1 || (st.AgoS == 2 && g%2 == 0):
							hosts[g] = fmt.Sprintf("10.%d.%d.%d", i+1, round, g+1)
						default:
							hosts[g] = fmt.Sprintf("h%d.crowd%d-%d.test", g, i, round)
						}
					}
					res := make([]*tls.Certificate, st.N)
					errs := make([]error, st.N)
					start := make(chan struct{})
					var wg sync.WaitGroup
					for g := 0; g < st.N; g++ {
						wg.Add(1)
						go func(g int) {
							defer wg.Done()
							<-start
							res[g], errs[g] = ca.GetCertForHost(hosts[g] + ":443")
						}(g)
					}
					close(start)
					wg.Wait()
					for g := range res {
						if errs[g] != nil {
							return ev.Failf("cert.issue-failed:crowd", "step %d: %q among %d concurrent new hosts: %v", i, hosts[g], st.N, errs[g])
						}
						if why := checkLeaf(res[g], hosts[g], pool); why != "" {
							return ev.Failf("cert.invalid:"+strings.SplitN(why, ":", 2)[0]+":crowd", "step %d: %q requested together with %d other new hosts: %s", i, hosts[g], st.N-1, why)
						}
						if again, _ := ca.GetCertForHost(hosts[g] + ":443"); again != res[g] {
							if why := checkLeaf(again, hosts[g], pool); why != "" {
								return ev.Failf("cert.invalid:"+strings.SplitN(why, ":", 2)[0]+":crowd-cached", "step %d: cached certificate of %q after a crowd of %d: %s", i, hosts[g], st.N, why)
							}
						}
					}
				}
			case "expire":
				churn = true
				if err := ca.VerifStoreExpired(host, time.Duration(st.AgoS)*time.Second); err != nil {
					return ev.Failf("cert.harness", "expire: %v", err)
				}
				delete(last, hi)
				c, err := ca.GetCertForHost(hp)
				if err != nil {
					return ev.Failf("cert.issue-failed:after-expiry", "step %d: %v", i, err)
				}
				if why := checkLeaf(c, host, pool); why != "" {
					return ev.Failf("cert.expired-served:"+strings.SplitN(why, ":", 2)[0], "step %d: the cached certificate of %q expired %d s ago, GetCertForHost returned: %s", i, hp, st.AgoS, why)
				}
				last[hi] = c
			}
		}
		o.NonTrivial = reuse && churn
		o.Canon = strings.Join(h.Hosts, ",") + "|" + shape
		return nil
	})

var labels = []string{"a", "www", "Example", "EXAMPLE", "test", "x1", "a-b", "xn--bcher-kva", "9", "long-label-0123456789-abcdefghijklmnopqrstuvwxyz-0123456789", "Mixed-Case", "co", "uk"}
var v4 = []string{"127.0.0.1", "10.0.0.1", "192.168.1.254", "8.8.8.8", "255.255.255.255", "1.2.3.4"}
var v6 = []string{"::1", "2001:db8::1", "fe80::1", "2001:0db8:0000:0000:0000:ff00:0042:8329", "::ffff:192.0.2.1", "::"}

func drawHostPort(t *rapid.T) string {
	port := rapid.SampledFrom([]int{1, 80, 443, 8443, 65535}).Draw(t, "port")
	if rapid.IntRange(0, 3).Draw(t, "rand-port") == 0 {
		port = rapid.IntRange(1, 65535).Draw(t, "port-n")
	}
	switch rapid.IntRange(0, 5).Draw(t, "kind") {
	case 0:
		return fmt.Sprintf("%s:%d", rapid.SampledFrom(v4).Draw(t, "v4"), port)
	case 1:
		return fmt.Sprintf("[%s]:%d", rapid.SampledFrom(v6).Draw(t, "v6"), port)
	default:
		n := rapid.IntRange(1, 6).Draw(t, "labels")
		var ls []string
		for i := 0; i < n; i++ {
			ls = append(ls, rapid.SampledFrom(labels).Draw(t, "label"))
		}
		return fmt.Sprintf("%s:%d", strings.Join(ls, "."), port)
	}
}

func drawHist(t *rapid.T) Hist {
	var h Hist
	for i := rapid.IntRange(1, 3).Draw(t, "hosts"); i > 0; i-- {
		h.Hosts = append(h.Hosts, drawHostPort(t))
	}
	// other spellings of the first host: clients write the same name in upper case, fully qualified with
	// a trailing dot, or with another port; each spelling must still get a certificate it can verify
	if hn, port, err := net.SplitHostPort(h.Hosts[0]); err == nil && net.ParseIP(hn) == nil && rapid.IntRange(0, 2).Draw(t, "respell") == 0 {
		for _, k := range rapid.SliceOfNDistinct(rapid.SampledFrom([]string{"dot", "upper", "lower", "port"}), 1, 2, rapid.ID[string]).Draw(t, "spellings") {
			switch k {
			case "dot":
				h.Hosts = append(h.Hosts, hn+".:"+port)
			case "upper":
				h.Hosts = append(h.Hosts, strings.ToUpper(hn)+":"+port)
			case "lower":
				h.Hosts = append(h.Hosts, strings.ToLower(hn)+":"+port)
			case "port":
				h.Hosts = append(h.Hosts, hn+":8444")
			}
		}
		if len(h.Hosts) > 3 {
			h.Hosts = append(h.Hosts[:1], h.Hosts[len(h.Hosts)-2:]...)
		}
	}
	for i := rapid.IntRange(2, 8).Draw(t, "steps"); i > 0; i-- {
		st := Step{Host: rapid.IntRange(0, 2).Draw(t, "host")}
		switch rapid.IntRange(0, 5).Draw(t, "step") {
		case 0, 1, 2:
			st.Kind = "issue"
		case 3:
			st.Kind, st.N = "burst", rapid.IntRange(2, 16).Draw(t, "n")
			if rapid.Bool().Draw(t, "crowd") {
				// AgoS selects the SAN kinds of the crowd: 0 names, 1 addresses, 2 alternating
				st.Kind, st.AgoS = "crowd", rapid.IntRange(0, 2).Draw(t, "crowd-kind")
			}
		default:
			st.Kind, st.AgoS = "expire", rapid.SampledFrom([]int{0, 1, 60, 3600, 864000, 864001, 1000000, 2592000, 5184000, 31536000}).Draw(t, "ago")
		}
		h.Steps = append(h.Steps, st)
	}
	return h
}

func TestCertHistories(t *testing.T) {
	sub.CheckSalt(t, 1, ev.N(300, 24000), drawHist)
}

// ---------------------------------------------------------------- invalid CONNECT targets + real handshakes

type Target struct {
	HostPort string `json:"host_port"`
}

var subInvalid = ev.Register("cert-targets",
	"arbitrary CONNECT target strings through GetCertForHost: strings net.SplitHostPort rejects must yield an error, accepted ones a certificate valid for the split host; never a panic; non-trivial = string is not a plain name:port; distinct by string",
	func(c Target, o *ev.Obs) *ev.Failure {
		ca, pool, _ := px.TestCA()
		host, _, serr := net.SplitHostPort(c.HostPort)
		o.NonTrivial = serr != nil || net.ParseIP(host) != nil
		var cert *tls.Certificate
		var err error
		func() {
			defer func() {
				if r := recover(); r != nil {
					err = fmt.Errorf("PANIC: %v", r)
				}
			}()
			cert, err = ca.GetCertForHost(c.HostPort)
		}()
		if err != nil && strings.HasPrefix(err.Error(), "PANIC") {
			return ev.Failf("cert.panic", "GetCertForHost(%q): %v", c.HostPort, err)
		}
		if serr != nil {
			o.Class("rejected-by-splithostport")
			if err == nil {
				return ev.Failf("cert.invalid-target-accepted", "GetCertForHost(%q) returned a certificate although the target is not host:port (%v)", c.HostPort, serr)
			}
			return nil
		}
		if err != nil {
			o.Class("issue-error")
			return nil // e.g. a host x509 cannot encode: rejected with an error, which is allowed
		}
		if host == "" {
			return nil
		}
		if why := checkLeaf(cert, host, pool); why != "" && !strings.HasPrefix(why, "does-not-verify") {
			return ev.Failf("cert.invalid:"+strings.SplitN(why, ":", 2)[0], "certificate for %q: %s", c.HostPort, why)
		}
		return nil
	})

func TestCertTargets(t *testing.T) {
	alphabet := []string{"a", "b.c", ":", "::", "[", "]", "1", "443", "%", "/", " ", "[::1]", "127.0.0.1", ".", "-", "é", "\x00", "*"}
	subInvalid.CheckSalt(t, 2, ev.N(3000, 200000), func(t *rapid.T) Target {
		if rapid.Bool().Draw(t, "valid") {
			return Target{HostPort: drawHostPort(t)}
		}
		n := rapid.IntRange(0, 6).Draw(t, "n")
		var b strings.Builder
		for i := 0; i < n; i++ {
			b.WriteString(rapid.SampledFrom(alphabet).Draw(t, "piece"))
		}
		return Target{HostPort: b.String()}
	})
}

type Shake struct {
	HostPort string `json:"host_port"`
	Repeat   int    `json:"repeat"`
	// ExpireBefore > 0: before tunnel number ExpireBefore (counted from 0) the host's cached certificate is
	// made to have expired AgoS seconds ago (hook H5): that tunnel must be presented a fresh, valid leaf
	ExpireBefore int `json:"expire_before,omitempty"`
	AgoS         int `json:"ago_s,omitempty"`
}

var subShake = ev.Register("cert-handshake",
	"real CONNECT + TLS handshakes through the proxy for generated targets; the client verifies the presented chain against the configured CA for exactly the requested host (crypto/tls); repeated tunnels to one host present the same leaf; when the cached certificate is made to expire between two tunnels (hook H5) the next tunnel is presented a fresh valid leaf; non-trivial = IP literal or mixed-case name; distinct by target",
	func(c Shake, o *ev.Obs) *ev.Failure {
		env := px.New(px.Opts{})
		defer env.Close()
		o.Class("host:" + hostKind(c.HostPort))
		o.NonTrivial = hostKind(c.HostPort) != "dns"
		var first []byte
		expired := false
		before := map[string]bool{} // leaves presented before the injected expiry
		ca, _, _ := px.TestCA()
		for i := 0; i < c.Repeat; i++ {
			if c.ExpireBefore > 0 && i == c.ExpireBefore {
				host, _, _ := net.SplitHostPort(c.HostPort)
				if err := ca.VerifStoreExpired(host, time.Duration(c.AgoS)*time.Second); err != nil {
					return ev.Failf("cert.harness", "expire: %v", err)
				}
				first = nil
				expired = true
				o.Class("expired-between-tunnels")
			}
			tun, err := env.Connect(c.HostPort)
			if err != nil {
				sig := "cert.handshake-failed:" + hostKind(c.HostPort)
				if c.ExpireBefore > 0 && i >= c.ExpireBefore {
					sig = "cert.handshake-failed:after-expiry"
				}
				return ev.Failf(sig, "CONNECT %s (tunnel %d of %d, certificate expired before tunnel %d): %v", c.HostPort, i, c.Repeat, c.ExpireBefore, err)
			}
			leaf := tun.Leaf
			tun.Close()
			if leaf == nil {
				return ev.Failf("cert.handshake-no-leaf", "CONNECT %s: no peer certificate", c.HostPort)
			}
			// the hook stands for time passing beyond the certificate lifetime: whatever was presented before it
			// has expired with it, so a tunnel opened afterwards must be presented a certificate issued since
			if !expired {
				before[string(leaf.Raw)] = true
			} else if before[string(leaf.Raw)] {
				return ev.Failf("cert.expired-served:handshake", "CONNECT %s: the host's certificate expired (%d s ago) between tunnel %d and tunnel %d, but tunnel %d was presented the very certificate of the earlier tunnel again (serial %s)", c.HostPort, c.AgoS, c.ExpireBefore-1, c.ExpireBefore, i, leaf.SerialNumber)
			}
			if first == nil {
				first = leaf.Raw
			} else if string(first) != string(leaf.Raw) {
				return ev.Failf("cert.not-reused:handshake", "CONNECT %s: tunnel %d was presented a different leaf", c.HostPort, i)
			}
		}
		if p := env.Panics(); p != "" {
			return ev.Failf("cert.handler-panic", "%s", p)
		}
		return nil
	})

func TestCertHandshake(t *testing.T) {
	subShake.CheckSalt(t, 3, ev.N(60, 4000), func(t *rapid.T) Shake {
		c := Shake{HostPort: drawHostPort(t), Repeat: rapid.IntRange(1, 4).Draw(t, "repeat")}
		if c.Repeat >= 2 && rapid.Bool().Draw(t, "expire") {
			c.ExpireBefore = rapid.IntRange(1, c.Repeat-1).Draw(t, "expire-before")
			c.AgoS = rapid.SampledFrom([]int{1, 3600, 864001, 5184000}).Draw(t, "ago")
		}
		return c
	})
}
