package c20

import (
	"bytes"
	"crypto/sha256"
	"encoding/base64"
	"encoding/json"
	"fmt"
	"go/ast"
	"go/parser"
	"go/token"
	"io"
	"log/slog"
	"net/http"
	"net/http/httptest"
	"os"
	"path/filepath"
	"sort"
	"strconv"
	"strings"
	"sync"
	"testing"
	"time"
	"verifharness/internal/netx"

	"golang.org/x/crypto/argon2"
	"pgregory.net/rapid"
	"reservoir/config"
	"reservoir/db"
	"reservoir/db/models"
	"reservoir/db/stores"
	"reservoir/logging"
	"reservoir/utils/phc"
	"reservoir/webserver/api"
	"reservoir/webserver/auth"
	"reservoir/webserver/middleware"

	"verifharness/internal/cfgkit"
	"verifharness/internal/ev"
	"verifharness/internal/px"
)

var (
	srv    *httptest.Server
	cfg    *config.Config
	routes []route
)

type route struct {
	Method       string `json:"method"`
	Path         string `json:"path"`
	RequiresAuth bool   `json:"requires_auth"`
	Type         string `json:"type"`
}

const goodPassword = "correct horse"

func cheapPHC(password string, salt byte) string {
	s := bytes.Repeat([]byte{salt}, 16)
	h := argon2.IDKey([]byte(password), s, 1, 8, 1, 32)
	return fmt.Sprintf("$argon2id$v=19$m=8,t=1,p=1,l=32$%s$%s", base64.RawStdEncoding.EncodeToString(s), base64.RawStdEncoding.EncodeToString(h))
}

func TestMain(m *testing.M) {
	// everything the API touches is relative to the working directory: var/config.json, var/database.db, var/proxy.log
	os.MkdirAll("var", 0o755)
	if err := db.MigrateDatabases(); err != nil {
		fmt.Println("cannot migrate:", err)
		os.Exit(2)
	}
	users, err := stores.OpenUserStore()
	if err != nil {
		fmt.Println("cannot open user store:", err)
		os.Exit(2)
	}
	for i, name := range []string{"alice", "bob"} {
		h, err := phc.ParsePHC(cheapPHC(goodPassword+name, byte(i+1)))
		if err != nil {
			fmt.Println("cheap PHC rejected:", err)
			os.Exit(2)
		}
		if err := users.Save(&models.User{Username: name, PasswordHash: *h}); err != nil {
			fmt.Println("cannot save user:", err)
			os.Exit(2)
		}
	}
	users.Close()
	// a user whose stored hash is malformed (row written directly)
	if raw, err := db.OpenMainDatabase(); err == nil {
		raw.Exec("INSERT INTO users (username, password_hash) VALUES (?, ?) ON CONFLICT(username) DO NOTHING", "mallory", "$argon2id$v=19$m=8,t=1,p=1$short$AAAA")
		raw.Exec("INSERT INTO users (username, password_hash) VALUES (?, ?) ON CONFLICT(username) DO NOTHING", "trent", "not a phc string")
		raw.Close()
	}
	cfg = config.NewDefault()
	px.SetBase(&cfg.Logging.Level, slog.LevelError)
	px.SetBase(&cfg.Logging.ToStdout, false)
	config.UpdatePartialFromConfig(cfg, map[string]any{"cache": map[string]any{"lock_shards": 1024}}) // writes var/config.json
	logging.Init(cfg)
	mux := http.NewServeMux()
	if err := api.New(cfg).RegisterHandlers(mux); err != nil {
		fmt.Println("RegisterHandlers:", err)
		os.Exit(2)
	}
	srv = netx.Server(middleware.Harden(mux))
	srv.Start()
	srv.Config.ErrorLog = nil
	routes = routesFromSource()
	// net/http's mux serves HEAD on every pattern registered for GET: each of those is a route of the API too
	for _, rt := range routes {
		if rt.Method == "GET" {
			head := rt
			head.Method = "HEAD"
			routes = append(routes, head)
		}
	}
	ev.Main(m, "C20")
}

func TestReplay(t *testing.T) { ev.ReplayWitnesses(t) }

// ---------------------------------------------------------------- route enumeration from the source

func routesFromSource() []route {
	root := filepath.Join(os.Getenv("VERIF_REPO_DIR"), "webserver", "api")
	if os.Getenv("VERIF_REPO_DIR") == "" {
		root = "/repo/webserver/api"
	}
	paths := map[string]string{}    // type -> path
	methods := map[string][]route{} // type -> methods
	registered := map[string]bool{}
	fset := token.NewFileSet()
	filepath.Walk(root, func(p string, info os.FileInfo, err error) error {
		if err != nil || info.IsDir() || !strings.HasSuffix(p, ".go") || strings.HasSuffix(p, "_test.go") {
			return nil
		}
		f, err := parser.ParseFile(fset, p, nil, 0)
		if err != nil {
			return nil
		}
		ast.Inspect(f, func(n ast.Node) bool {
			switch x := n.(type) {
			case *ast.FuncDecl:
				if x.Recv == nil || len(x.Recv.List) == 0 || x.Body == nil {
					return true
				}
				tn := recvName(x.Recv.List[0].Type)
				switch x.Name.Name {
				case "Path":
					ast.Inspect(x.Body, func(m ast.Node) bool {
						if r, ok := m.(*ast.ReturnStmt); ok && len(r.Results) == 1 {
							if lit, ok := r.Results[0].(*ast.BasicLit); ok && lit.Kind == token.STRING {
								paths[tn], _ = strconv.Unquote(lit.Value)
							}
						}
						return true
					})
				case "EndpointMethods":
					ast.Inspect(x.Body, func(m ast.Node) bool {
						cl, ok := m.(*ast.CompositeLit)
						if !ok {
							return true
						}
						var rt route
						has := false
						for _, el := range cl.Elts {
							kv, ok := el.(*ast.KeyValueExpr)
							if !ok {
								continue
							}
							k, _ := kv.Key.(*ast.Ident)
							if k == nil {
								continue
							}
							switch k.Name {
							case "Method":
								if lit, ok := kv.Value.(*ast.BasicLit); ok {
									rt.Method, _ = strconv.Unquote(lit.Value)
									has = true
								} else if sel, ok := kv.Value.(*ast.SelectorExpr); ok {
									rt.Method = strings.ToUpper(strings.TrimPrefix(sel.Sel.Name, "Method"))
									has = true
								}
							case "RequiresAuth":
								if id, ok := kv.Value.(*ast.Ident); ok {
									rt.RequiresAuth = id.Name == "true"
								}
							}
						}
						if has {
							rt.Type = tn
							methods[tn] = append(methods[tn], rt)
						}
						return true
					})
				}
			case *ast.CompositeLit:
				// entries of the `endpoints` literal: &pkg.TypeName{}
				for _, el := range x.Elts {
					if u, ok := el.(*ast.UnaryExpr); ok && u.Op == token.AND {
						if cl, ok := u.X.(*ast.CompositeLit); ok {
							registered[recvName(cl.Type)] = true
						}
					}
				}
			}
			return true
		})
		return nil
	})
	var out []route
	for tn, ms := range methods {
		if !registered[tn] {
			continue
		}
		for _, m := range ms {
			m.Path = "/api" + paths[tn]
			out = append(out, m)
		}
	}
	sort.Slice(out, func(i, j int) bool { return out[i].Path+out[i].Method < out[j].Path+out[j].Method })
	return out
}

func recvName(e ast.Expr) string {
	switch x := e.(type) {
	case *ast.StarExpr:
		return recvName(x.X)
	case *ast.Ident:
		return x.Name
	case *ast.SelectorExpr:
		return x.Sel.Name
	}
	return ""
}

// ---------------------------------------------------------------- helpers

type sideState struct {
	vector map[string]string
	file   string
	hashes string
}

func snapshot() sideState {
	var s sideState
	s.vector = cfgkit.Vector(cfg)
	b, _ := os.ReadFile("var/config.json")
	s.file = fmt.Sprintf("%x", sha256.Sum256(b))
	if us, err := stores.OpenUserStore(); err == nil {
		for _, n := range []string{"alice", "bob", "admin"} {
			if u, err := us.GetByUsername(n); err == nil && u != nil {
				s.hashes += n + "=" + u.PasswordHash.String() + ";"
			}
		}
		us.Close()
	}
	return s
}

func (a sideState) diff(b sideState) string {
	if d := cfgkit.Diff(a.vector, b.vector); len(d) > 0 {
		return "running configuration changed: " + strings.Join(d, ", ")
	}
	if a.file != b.file {
		return "var/config.json changed"
	}
	if a.hashes != b.hashes {
		return "a stored password hash changed"
	}
	return ""
}

type reqSpec struct {
	Method  string
	Path    string
	Cookie  string
	Headers map[string]string
	Body    string
}

var client = &http.Client{Timeout: 3 * time.Second, CheckRedirect: func(*http.Request, []*http.Request) error { return http.ErrUseLastResponse }}

// do returns the status; streaming responses are not read to the end. status 0 = connection dropped.
func do(r reqSpec) (int, http.Header, string) {
	req, _ := http.NewRequest(r.Method, srv.URL+r.Path, strings.NewReader(r.Body))
	if r.Cookie != "" {
		req.AddCookie(&http.Cookie{Name: "reservoir.sid", Value: r.Cookie})
	}
	if r.Body != "" {
		req.Header.Set("Content-Type", "application/json")
	}
	if r.Method == "HEAD" {
		// the answer to a HEAD ends with its header; a handler that keeps running (the log stream) must not be
		// sitting on a connection the client pool hands to the next request
		req.Close = true
	}
	for k, v := range r.Headers {
		req.Header.Set(k, v)
	}
	resp, err := client.Do(req)
	if err != nil {
		return 0, nil, err.Error()
	}
	defer resp.Body.Close()
	buf := make([]byte, 2048)
	n, _ := io.ReadAtLeast(resp.Body, buf, 1)
	return resp.StatusCode, resp.Header, string(buf[:n])
}

func login(user, pw string) (int, string) { return loginWith(user, pw, "") }

// loginWith: a login request that carries a session cookie (a second tab, a script that always logs in first).
func loginWith(user, pw, cookie string) (int, string) {
	b, _ := json.Marshal(map[string]string{"username": user, "password": pw})
	st, h, _ := do(reqSpec{Method: "POST", Path: "/api/auth/login", Body: string(b), Cookie: cookie})
	sid := ""
	for _, c := range (&http.Response{Header: h}).Cookies() {
		if c.Name == "reservoir.sid" {
			sid = c.Value
		}
	}
	return st, sid
}

func bodyFor(rt route) string {
	switch {
	case rt.Path == "/api/config" && rt.Method == "PATCH":
		return `{"cache":{"lock_shards":77},"proxy":{"retry_on_invalid_range":true}}`
	case strings.HasSuffix(rt.Path, "change-password"):
		return `{"current_password":"` + goodPassword + `alice","new_password":"hijacked"}`
	case strings.HasSuffix(rt.Path, "login"):
		return `{"username":"nobody","password":"x"}`
	}
	return ""
}

// ---------------------------------------------------------------- (1) every route x method x cookie class x cross-site headers

type RouteCase struct {
	Route  int    `json:"route"`
	Cookie string `json:"cookie"` // none | random | logged-out | expired | live
	ExpMs  int    `json:"expired_by_ms"`
	Site   string `json:"site"` // "" | same-origin | cross-site | cross-site+origin | options+origin | origin-only
}

var subRoutes = ev.Register("route-table",
	"every registered API route and method (enumerated from the source with go/parser: the endpoints literal, each type's Path() and EndpointMethods() literals; each must also exist on the real mux; plus HEAD on every GET route, which the mux serves as well) x cookie class (absent, random, logged-out, expired by 1 ms .. 1 h, live) x Origin / Sec-Fetch-Site combination, against the real mux wrapped in middleware.Harden with a migrated scratch database; oracle: a route other than login without a live cookie answers 401 and changes nothing (configuration vector, var/config.json, password hashes); with a live cookie it does not answer 401; a cross-site request (Sec-Fetch-Site: cross-site with or without an Origin; a foreign or opaque Origin without Sec-Fetch-Site) and an OPTIONS with an Origin answer 403 and change nothing, a request whose Origin is the dashboard's own is treated like one without; non-trivial = not (GET with no cookie and no site headers); distinct by (route, cookie class, margin class, site class)",
	func(c RouteCase, o *ev.Obs) *ev.Failure {
		if len(routes) == 0 {
			return ev.Failf("routes.none-found", "no routes could be enumerated from the source")
		}
		rt := routes[c.Route%len(routes)]
		isLogin := strings.HasSuffix(rt.Path, "/auth/login")
		o.Class("route:" + rt.Method + " " + rt.Path)
		o.Class("cookie:" + c.Cookie)
		o.Class("site:" + c.Site)
		o.NonTrivial = !(rt.Method == "GET" && c.Cookie == "none" && c.Site == "")
		o.Canon = fmt.Sprintf("%s %s|%s|%d|%s", rt.Method, rt.Path, c.Cookie, c.ExpMs, c.Site)
		// the route must exist on the mux (dynamic enumeration agrees with the source)
		cookie := ""
		var sess *auth.Session
		switch c.Cookie {
		case "random":
			cookie = "AAAAAAAAAAAAAAAAAAAAAAAAAA"
		case "logged-out", "expired", "live":
			st, sid := login("alice", goodPassword+"alice")
			if st != 200 || sid == "" {
				return ev.Failf("login.valid-rejected", "login with the right password answered %d", st)
			}
			cookie = sid
			sess, _ = auth.GetSession(sid)
			if sess == nil {
				return ev.Failf("session.not-created", "no session after a successful login")
			}
			if c.Cookie == "logged-out" {
				if st, _, _ := do(reqSpec{Method: "POST", Path: "/api/auth/logout", Cookie: sid}); st != 204 {
					return ev.Failf("logout.failed", "logout answered %d", st)
				}
			}
			if c.Cookie == "expired" {
				sess.ExpiresAt = time.Now().Add(-time.Duration(c.ExpMs) * time.Millisecond)
			}
		}
		hs := map[string]string{}
		method := rt.Method
		switch c.Site {
		case "same-origin":
			hs["Sec-Fetch-Site"], hs["Origin"] = "same-origin", srv.URL
		case "cross-site":
			hs["Sec-Fetch-Site"] = "cross-site"
		case "cross-site+origin":
			hs["Sec-Fetch-Site"], hs["Origin"] = "cross-site", "https://evil.example"
		case "cross-site+origin-null":
			// an opaque origin (sandboxed frame, data: or file: document, cross-origin redirect) is serialised as "null"
			hs["Sec-Fetch-Site"], hs["Origin"] = "cross-site", "null"
		case "cross-site+origin-local":
			hs["Sec-Fetch-Site"], hs["Origin"] = "cross-site", "http://localhost"
		case "options+origin-null":
			method = "OPTIONS"
			hs["Origin"] = "null"
		case "options+origin":
			method = "OPTIONS"
			hs["Origin"] = "https://evil.example"
		case "origin-only":
			// no Sec-Fetch-Site (a browser older than the header, or a form posted by one): the Origin names another site
			hs["Origin"] = "https://evil.example"
		case "origin-only-null":
			hs["Origin"] = "null"
		case "origin-only-same":
			hs["Origin"] = srv.URL // the dashboard's own origin: not cross-site
		case "cross-site+origin-same":
			hs["Sec-Fetch-Site"], hs["Origin"] = "cross-site", srv.URL
		}
		before := snapshot()
		st, _, body := do(reqSpec{Method: method, Path: rt.Path, Cookie: cookie, Headers: hs, Body: bodyFor(rt)})
		after := snapshot()
		live := c.Cookie == "live"
		desc := fmt.Sprintf("%s %s cookie=%s(%dms) site=%s -> %d %q", method, rt.Path, c.Cookie, c.ExpMs, c.Site, st, clip(body))
		// cross-site: the browser says so (Sec-Fetch-Site: cross-site - with an Origin on form posts and CORS requests,
		// without one on plain GETs), or, where Sec-Fetch-Site is missing, the Origin names another site
		if strings.HasPrefix(c.Site, "cross-site") || strings.HasPrefix(c.Site, "options+origin") || c.Site == "origin-only" || c.Site == "origin-only-null" {
			if st != 403 {
				return ev.Failf("harden.cross-site-not-refused:"+c.Site, "%s: a cross-site request must be refused with 403", desc)
			}
			if d := before.diff(after); d != "" {
				return ev.Failf("harden.cross-site-had-effect", "%s: %s", desc, d)
			}
			return nil
		}
		if st == 404 || st == 405 {
			if method == rt.Method {
				return ev.Failf("routes.source-and-mux-disagree", "%s: the source registers this route but the mux answers %d", desc, st)
			}
			return nil
		}
		if !isLogin && !live {
			if st != 401 {
				return ev.Failf("auth.unauthenticated-access:"+c.Cookie+":"+rt.Method+" "+rt.Path, "%s: no live session, the route must answer 401", desc)
			}
			if d := before.diff(after); d != "" {
				return ev.Failf("auth.unauthenticated-effect:"+c.Cookie, "%s: %s", desc, d)
			}
			if c.Cookie == "expired" && sess != nil {
				if s2, ok := auth.GetSession(cookie); ok && s2.ExpiresAt.After(time.Now()) {
					return ev.Failf("session.expired-revived", "%s: the expired session is live again (expires %s)", desc, s2.ExpiresAt.Format(time.RFC3339))
				}
			}
		}
		if !isLogin && live && st == 401 {
			return ev.Failf("auth.live-session-refused:"+rt.Method+" "+rt.Path, "%s: a live session was refused", desc)
		}
		// undo what a live PATCH did, so later cases start from the same state
		if live && rt.Method == "PATCH" {
			if strings.HasSuffix(rt.Path, "/config") {
				config.UpdatePartialFromConfig(cfg, map[string]any{"cache": map[string]any{"lock_shards": 1024}, "proxy": map[string]any{"retry_on_invalid_range": false}})
			} else if us, err := stores.OpenUserStore(); err == nil {
				h, _ := phc.ParsePHC(cheapPHC(goodPassword+"alice", 1))
				us.Save(&models.User{Username: "alice", PasswordHash: *h})
				us.Close()
			}
		}
		if sess != nil {
			sess.Destroy()
		}
		return nil
	})

func clip(s string) string {
	if len(s) > 60 {
		return s[:60]
	}
	return s
}

var cookieClasses = []string{"none", "random", "logged-out", "expired", "live"}
var siteClasses = []string{"", "same-origin", "cross-site", "cross-site+origin", "cross-site+origin-null", "cross-site+origin-local", "cross-site+origin-same", "options+origin", "options+origin-null", "origin-only", "origin-only-null", "origin-only-same"}
var margins = []int{1, 1000, 9 * 60 * 1000, 11 * 60 * 1000, 30 * 60 * 1000, 3600 * 1000}

func TestRouteTable(t *testing.T) {
	if len(routes) < 5 {
		t.Fatalf("only %d routes enumerated from the source", len(routes))
	}
	idx := 0
	subRoutes.Enumerate(t, true, func(yield func(RouteCase) bool) {
		for ri := range routes {
			for _, ck := range cookieClasses {
				ms := []int{0}
				if ck == "expired" {
					ms = margins
				}
				for _, m := range ms {
					for _, site := range siteClasses {
						idx++
						if idx%ev.NShards != ev.Shard {
							continue
						}
						if !yield(RouteCase{Route: ri, Cookie: ck, ExpMs: m, Site: site}) {
							return
						}
					}
				}
			}
		}
	})
	ev.Note("route-table: %d (route, method) pairs from the source x 5 cookie classes (6 expiry margins) x 9 site-header classes (Origin values: a foreign https origin, the opaque origin \"null\", a local http origin), enumerated completely", len(routes))
}

// ---------------------------------------------------------------- (2) session histories

type SStep struct {
	Kind  string `json:"kind"` // login | logout | age | request
	User  string `json:"user,omitempty"`
	Pw    string `json:"pw,omitempty"` // right | wrong | empty
	Sess  int    `json:"sess,omitempty"`
	AgeMs int64  `json:"age_ms,omitempty"` // ExpiresAt = now + AgeMs
	Route int    `json:"route,omitempty"`
}

type SHist struct {
	Steps []SStep `json:"steps"`
}

type msess struct {
	sid       string
	obj       *auth.Session
	loggedOut bool
	expiresAt time.Time
}

var subSessions = ev.Register("session-histories",
	"histories of login (right / wrong / empty password; known, unknown, malformed-hash users) / login with a wrong password carrying the cookie of an existing session / logout / age (the session's expiry is moved to now + d for d from -1 h to +1 h, including the +-11 min zone around the sliding-extension threshold) / request(route) with the cookie of any session created so far; model: a session is live from a successful login until logout or its expiry (sliding extension only while live); oracle: login succeeds exactly with the password whose stored hash verifies (never with a malformed stored hash; a wrong password never yields a new session, whatever cookie came with it); a request carrying a non-live cookie is refused with 401, has no effect, and does not revive the session; one carrying a live cookie is not refused; non-trivial = an expired or logged-out cookie was used against a state-changing route; distinct by history",
	func(h SHist, o *ev.Obs) *ev.Failure {
		var ss []*msess
		defer func() {
			for _, s := range ss {
				if s.obj != nil {
					s.obj.Destroy()
				}
			}
		}()
		nt := false
		for i, st := range h.Steps {
			switch st.Kind {
			case "login":
				pw := map[string]string{"right": goodPassword + st.User, "wrong": "wrong-" + st.User, "empty": ""}[st.Pw]
				code, sid := login(st.User, pw)
				should := (st.User == "alice" || st.User == "bob") && st.Pw == "right"
				if should && (code != 200 || sid == "") {
					return ev.Failf("login.valid-rejected", "step %d: login %s/%s answered %d", i, st.User, st.Pw, code)
				}
				if !should && (code == 200 || sid != "") {
					return ev.Failf("login.invalid-accepted:"+st.User+":"+st.Pw, "step %d: login as %q with the %s password answered %d and set cookie %q", i, st.User, st.Pw, code, sid)
				}
				if should {
					obj, _ := auth.GetSession(sid)
					ss = append(ss, &msess{sid: sid, obj: obj, expiresAt: time.Now().Add(time.Hour)})
				}
			case "logout", "age", "request", "login-with-cookie":
				if len(ss) == 0 {
					continue
				}
				s := ss[st.Sess%len(ss)]
				now := time.Now()
				live := !s.loggedOut && now.Before(s.expiresAt)
				switch st.Kind {
				case "login-with-cookie":
					// a login request that carries the cookie of session s and a password that is not the user's: whatever
					// it answers (a live cookie gets "already authenticated"), it must not hand out a session
					code, sid2 := loginWith(st.User, "wrong-"+st.User, s.sid)
					if !live && code == 200 {
						return ev.Failf("login.invalid-accepted:with-dead-cookie", "step %d: login as %q with a wrong password and a non-live cookie answered 200", i, st.User)
					}
					if sid2 != "" && sid2 != s.sid {
						if s2, ok := auth.GetSession(sid2); ok {
							s2.Destroy()
							return ev.Failf("login.invalid-accepted:with-live-cookie", "step %d: login as %q with a wrong password, carrying the cookie of session %d (live: %v), answered %d and handed out a new live session", i, st.User, st.Sess%len(ss), live, code)
						}
					}
					if live && s.obj != nil && s.obj.ExpiresAt.After(s.expiresAt) {
						s.expiresAt = s.obj.ExpiresAt // the request carried a live cookie inside the extension zone
					}
				case "logout":
					code, _, _ := do(reqSpec{Method: "POST", Path: "/api/auth/logout", Cookie: s.sid})
					if live && code != 204 {
						return ev.Failf("logout.failed", "step %d: logout of a live session answered %d", i, code)
					}
					if !live && code != 401 {
						return ev.Failf("auth.unauthenticated-access:logout", "step %d: logout with a non-live cookie answered %d", i, code)
					}
					if live {
						s.loggedOut = true
					}
				case "age":
					if s.loggedOut || s.obj == nil {
						continue
					}
					if !live {
						continue // an expired session stays expired: it is not given a new lifetime by the harness
					}
					s.obj.ExpiresAt = now.Add(time.Duration(st.AgeMs) * time.Millisecond)
					s.expiresAt = s.obj.ExpiresAt
				case "request":
					rt := routes[st.Route%len(routes)]
					if strings.HasSuffix(rt.Path, "/auth/login") || strings.HasSuffix(rt.Path, "/auth/logout") || strings.HasSuffix(rt.Path, "/log/stream") {
						continue
					}
					if !live && rt.Method != "GET" {
						nt = true
					}
					before := snapshot()
					code, _, body := do(reqSpec{Method: rt.Method, Path: rt.Path, Cookie: s.sid, Body: bodyFor(rt)})
					after := snapshot()
					desc := fmt.Sprintf("step %d: %s %s with the cookie of session %d (logged out %v, expiry %+d ms from now) -> %d %q", i, rt.Method, rt.Path, st.Sess%len(ss), s.loggedOut, s.expiresAt.Sub(now).Milliseconds(), code, clip(body))
					if !live {
						if code != 401 {
							kind := "expired"
							if s.loggedOut {
								kind = "logged-out"
							}
							return ev.Failf("auth.unauthenticated-access:"+kind, "%s", desc)
						}
						if d := before.diff(after); d != "" {
							return ev.Failf("auth.unauthenticated-effect", "%s: %s", desc, d)
						}
						if s2, ok := auth.GetSession(s.sid); ok && s2.ExpiresAt.After(time.Now()) && !s.loggedOut {
							return ev.Failf("session.expired-revived", "%s: afterwards the session is live again until %s", desc, s2.ExpiresAt.Format(time.RFC3339))
						}
					} else {
						if code == 401 {
							return ev.Failf("auth.live-session-refused", "%s", desc)
						}
						// sliding extension while live
						if s.obj != nil && s.obj.ExpiresAt.After(s.expiresAt) {
							s.expiresAt = s.obj.ExpiresAt
						}
						if rt.Method == "PATCH" {
							if strings.HasSuffix(rt.Path, "/config") {
								config.UpdatePartialFromConfig(cfg, map[string]any{"cache": map[string]any{"lock_shards": 1024}, "proxy": map[string]any{"retry_on_invalid_range": false}})
							} else if us, err := stores.OpenUserStore(); err == nil {
								hh, _ := phc.ParsePHC(cheapPHC(goodPassword+"alice", 1))
								us.Save(&models.User{Username: "alice", PasswordHash: *hh})
								us.Close()
							}
						}
					}
				}
			}
		}
		o.NonTrivial = nt
		return nil
	})

func TestSessionHistories(t *testing.T) {
	subSessions.CheckSalt(t, 2, ev.N(200, 16000), func(t *rapid.T) SHist {
		var h SHist
		h.Steps = append(h.Steps, SStep{Kind: "login", User: "alice", Pw: "right"})
		for i := rapid.IntRange(2, 12).Draw(t, "n"); i > 0; i-- {
			switch rapid.IntRange(0, 9).Draw(t, "step") {
			case 0, 1:
				h.Steps = append(h.Steps, SStep{Kind: "login", User: rapid.SampledFrom([]string{"alice", "bob", "carol", "mallory", "trent", "ALICE", ""}).Draw(t, "user"),
					Pw: rapid.SampledFrom([]string{"right", "right", "wrong", "empty"}).Draw(t, "pw")})
			case 2:
				h.Steps = append(h.Steps, SStep{Kind: "logout", Sess: rapid.IntRange(0, 3).Draw(t, "sess")})
			case 3:
				h.Steps = append(h.Steps, SStep{Kind: "login-with-cookie", Sess: rapid.IntRange(0, 3).Draw(t, "sess"), User: rapid.SampledFrom([]string{"alice", "bob", "nobody"}).Draw(t, "user")},
					SStep{Kind: "logout", Sess: rapid.IntRange(0, 3).Draw(t, "sess")})
			case 4, 5:
				h.Steps = append(h.Steps, SStep{Kind: "age", Sess: rapid.IntRange(0, 3).Draw(t, "sess"),
					AgeMs: rapid.SampledFrom([]int64{-3600000, -1800000, -660000, -540000, -1000, -1, 1500, 540000, 660000, 3600000}).Draw(t, "age")})
			default:
				h.Steps = append(h.Steps, SStep{Kind: "request", Sess: rapid.IntRange(0, 3).Draw(t, "sess"), Route: rapid.IntRange(0, 40).Draw(t, "route")})
			}
		}
		return h
	})
}

// ---------------------------------------------------------------- (3) concurrent use of one session

type Conc struct {
	Clients int   `json:"clients"`
	AgeMs   int64 `json:"age_ms"` // the shared session expires this far from now (inside the sliding-extension zone)
	Logins  int   `json:"logins"` // concurrent fresh logins going on meanwhile
}

var subConc = ev.Register("session-concurrency",
	"2-12 clients use one session cookie at the same moment while its expiry lies inside the sliding-extension zone (so every request may extend it), with concurrent logins and logouts of other sessions and passes of the session garbage collector (hook H6); oracle: a live cookie is never refused and nothing panics; this is mainly a workload for the race detector (C15); non-trivial = always; distinct by case",
	func(c Conc, o *ev.Obs) *ev.Failure {
		st, sid := login("bob", goodPassword+"bob")
		if st != 200 {
			return ev.Failf("login.valid-rejected", "login answered %d", st)
		}
		sess, _ := auth.GetSession(sid)
		defer func() {
			if sess != nil {
				sess.Destroy()
			}
		}()
		sess.ExpiresAt = time.Now().Add(time.Duration(c.AgeMs) * time.Millisecond)
		o.NonTrivial = true
		errs := make(chan *ev.Failure, c.Clients+c.Logins)
		var wg sync.WaitGroup
		for i := 0; i < c.Clients; i++ {
			wg.Add(1)
			go func() {
				defer wg.Done()
				for k := 0; k < 3; k++ {
					code, _, _ := do(reqSpec{Method: "GET", Path: "/api/version", Cookie: sid})
					if code == 401 || code == 0 {
						errs <- ev.Failf("auth.live-session-refused:concurrent", "a live session used by %d clients at once was answered %d", c.Clients, code)
						return
					}
				}
			}()
		}
		if c.Logins > 0 {
			// the session garbage collector's pass (hook H6: its ticker fires every 15 minutes) while sessions
			// come and go
			wg.Add(1)
			go func() {
				defer wg.Done()
				for k := 0; k < 20; k++ {
					auth.VerifRunSessionGC()
					time.Sleep(200 * time.Microsecond)
				}
			}()
		}
		for i := 0; i < c.Logins; i++ {
			wg.Add(1)
			go func() {
				defer wg.Done()
				if code, s2 := login("alice", goodPassword+"alice"); code == 200 {
					do(reqSpec{Method: "POST", Path: "/api/auth/logout", Cookie: s2})
				}
			}()
		}
		wg.Wait()
		close(errs)
		for f := range errs {
			return f
		}
		return nil
	})

func TestSessionConcurrency(t *testing.T) {
	subConc.CheckSalt(t, 3, ev.N(40, 2000), func(t *rapid.T) Conc {
		return Conc{Clients: rapid.IntRange(2, 12).Draw(t, "clients"), AgeMs: rapid.SampledFrom([]int64{2000, 60000, 540000, 599000}).Draw(t, "age"), Logins: rapid.IntRange(0, 4).Draw(t, "logins")}
	})
}
