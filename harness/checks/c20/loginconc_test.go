package c20

// Logins for one account that overlap in time: each is decided by its own password. The account's hash
// is a slow one (tens of milliseconds), and the attempts start at drawn fractions of one verification's
// duration, so that wrong passwords arrive while a right one is still being verified, and the reverse.

import (
	"fmt"
	"sync"
	"sync/atomic"
	"testing"
	"time"

	"golang.org/x/crypto/argon2"
	"pgregory.net/rapid"
	"reservoir/db/models"
	"reservoir/db/stores"
	"reservoir/utils/phc"
	"reservoir/webserver/auth"

	"encoding/base64"

	"verifharness/internal/ev"
)

type LoginAttempt struct {
	Pw       string `json:"pw"`        // right | wrong | empty | near (the right password plus one byte) | other (another account's password)
	StartPct int    `json:"start_pct"` // start this many percent of one verification's duration after the case began
	Spelling string `json:"spelling,omitempty"`
}

type LoginConc struct {
	Attempts []LoginAttempt `json:"attempts"`
}

const slowUser, slowPassword = "carol", "slow and steady"

var slowOnce sync.Once
var slowErr error
var slowT time.Duration

func slowAccount() (time.Duration, error) {
	slowOnce.Do(func() {
		salt := []byte("0123456789abcdef")
		h := argon2.IDKey([]byte(slowPassword), salt, 6, 32*1024, 1, 32)
		p, err := phc.ParsePHC(fmt.Sprintf("$argon2id$v=19$m=32768,t=6,p=1$%s$%s", base64.RawStdEncoding.EncodeToString(salt), base64.RawStdEncoding.EncodeToString(h)))
		if err != nil {
			slowErr = err
			return
		}
		us, err := stores.OpenUserStore()
		if err != nil {
			slowErr = err
			return
		}
		defer us.Close()
		if slowErr = us.Save(&models.User{Username: slowUser, PasswordHash: *p}); slowErr != nil {
			return
		}
		t0 := time.Now()
		if st, sid := login(slowUser, slowPassword); st != 200 {
			slowErr = fmt.Errorf("sequential login with the right password answered %d", st)
		} else {
			do(reqSpec{Method: "POST", Path: "/api/auth/logout", Cookie: sid})
		}
		slowT = time.Since(t0)
	})
	return slowT, slowErr
}

var subLoginConc = ev.Register("login-concurrency",
	"2-6 logins for one account (stored hash argon2id m=32 MiB t=6, one verification takes tens of ms) start at drawn offsets of 0-90 % of one verification's duration, each with a password class in {right, wrong, empty, right plus one byte, another account's password} and a spelling of the user name; oracle: an attempt answers 200 with a cookie exactly when its own password is the right one, every other attempt answers 401 without a cookie, and a cookie handed to a wrong-password attempt is not a live session; non-trivial = a right and a wrong attempt overlap; distinct by case",
	func(c LoginConc, o *ev.Obs) *ev.Failure {
		T, err := slowAccount()
		if err != nil {
			return ev.Failf("login.harness", "slow account: %v", err)
		}
		type res struct {
			code int
			sid  string
		}
		out := make([]res, len(c.Attempts))
		var wg sync.WaitGroup
		rights, wrongs := 0, 0
		for i, a := range c.Attempts {
			if a.Pw == "right" {
				rights++
			} else {
				wrongs++
			}
			wg.Add(1)
			go func(i int, a LoginAttempt) {
				defer wg.Done()
				time.Sleep(T * time.Duration(a.StartPct) / 100)
				pw := map[string]string{"right": slowPassword, "wrong": "wrong-" + fmt.Sprint(i), "empty": "", "near": slowPassword + "!", "other": goodPassword + "alice"}[a.Pw]
				code, sid := login(spell(slowUser, a.Spelling), pw)
				out[i] = res{code, sid}
			}(i, a)
		}
		wg.Wait()
		defer func() {
			for _, r := range out {
				if r.sid != "" {
					do(reqSpec{Method: "POST", Path: "/api/auth/logout", Cookie: r.sid})
				}
			}
		}()
		o.NonTrivial = rights > 0 && wrongs > 0
		o.Classf("rights:%d", rights)
		o.Classf("attempts:%d", len(c.Attempts))
		for i, a := range c.Attempts {
			r := out[i]
			if a.Pw == "right" {
				continue
			}
			if r.code == 200 || r.sid != "" {
				live, _, _ := do(reqSpec{Method: "GET", Path: "/api/auth/me", Cookie: r.sid})
				return ev.Failf("login.wrong-password-accepted:concurrent", "attempt %d (password class %q, start at %d %% of a verification) among %v answered %d with cookie %v; GET /api/auth/me with that cookie answers %d", i, a.Pw, a.StartPct, c.Attempts, r.code, r.sid != "", live)
			}
			if r.code != 401 {
				return ev.Failf("login.wrong-password-status:concurrent", "attempt %d (password class %q) answered %d, want 401", i, a.Pw, r.code)
			}
		}
		for i, a := range c.Attempts {
			if r := out[i]; a.Pw == "right" && (r.code != 200 || r.sid == "") {
				return ev.Failf("login.valid-rejected:concurrent", "attempt %d (right password, start at %d %%) among %v answered %d", i, a.StartPct, c.Attempts, r.code)
			}
		}
		return nil
	})

func TestLoginConcurrency(t *testing.T) {
	subLoginConc.CheckSalt(t, 23, ev.N(30, 1500), func(t *rapid.T) LoginConc {
		var c LoginConc
		n := rapid.IntRange(2, 6).Draw(t, "attempts")
		for i := 0; i < n; i++ {
			c.Attempts = append(c.Attempts, LoginAttempt{
				Pw:       rapid.SampledFrom([]string{"right", "right", "wrong", "wrong", "empty", "near", "other"}).Draw(t, "pw"),
				StartPct: rapid.SampledFrom([]int{0, 0, 10, 30, 55, 90}).Draw(t, "start"),
				Spelling: rapid.SampledFrom([]string{"", "", "", "upper"}).Draw(t, "spelling"),
			})
		}
		return c
	})
}

// ---------------------------------------------------------------- logout while the session is in use

type LogoutRace struct {
	Clients  int   `json:"clients"`
	Requests int   `json:"requests"`  // per client
	AgeMs    int64 `json:"age_ms"`    // the session expires this far from now (inside or outside the sliding-extension zone)
	LogoutUs int   `json:"logout_us"` // the logout is sent this long after the clients started
}

var subLogoutRace = ev.Register("logout-vs-use",
	"2-12 clients send 3-20 requests each with one session cookie whose expiry lies 2 s - 50 min away (inside and outside the zone in which a request extends it) while a logout of that session is sent 0-3 ms after they started; oracle: every request that starts after the logout was answered 204 is refused with 401, and so is a final request after everything has finished - a logged-out session is not live again; non-trivial = requests with the cookie were answered both before and after the logout; distinct by case",
	func(c LogoutRace, o *ev.Obs) *ev.Failure {
		st, sid := login("bob", goodPassword+"bob")
		if st != 200 {
			return ev.Failf("login.valid-rejected", "login answered %d", st)
		}
		sess, ok := auth.GetSession(sid)
		if !ok {
			return ev.Failf("login.harness", "fresh session not found")
		}
		defer sess.Destroy()
		sess.ExpiresAt = time.Now().Add(time.Duration(c.AgeMs) * time.Millisecond) // nobody else knows the session yet
		var logoutDone atomic.Int64
		var mu sync.Mutex
		var fail *ev.Failure
		before, after := 0, 0
		var wg sync.WaitGroup
		for i := 0; i < c.Clients; i++ {
			wg.Add(1)
			go func() {
				defer wg.Done()
				for k := 0; k < c.Requests; k++ {
					done := logoutDone.Load()
					code, _, _ := do(reqSpec{Method: "GET", Path: "/api/version", Cookie: sid})
					mu.Lock()
					if done != 0 {
						after++
						if code != 401 && fail == nil {
							fail = ev.Failf("auth.logged-out-session-live:during-use", "%d clients use a session that expires in %d ms; a request sent after the logout had been answered 204 got %d", c.Clients, c.AgeMs, code)
						}
					} else if code == 200 {
						before++
					}
					mu.Unlock()
				}
			}()
		}
		wg.Add(1)
		go func() {
			defer wg.Done()
			time.Sleep(time.Duration(c.LogoutUs) * time.Microsecond)
			code, _, _ := do(reqSpec{Method: "POST", Path: "/api/auth/logout", Cookie: sid})
			if code == 204 || code == 200 {
				logoutDone.Store(time.Now().UnixNano())
			} else {
				mu.Lock()
				if fail == nil {
					fail = ev.Failf("logout.failed", "logout of a live session answered %d", code)
				}
				mu.Unlock()
			}
		}()
		wg.Wait()
		o.NonTrivial = before > 0 && after > 0
		o.Classf("in-extension-zone:%v", c.AgeMs <= 600000)
		if fail != nil {
			return fail
		}
		if code, _, _ := do(reqSpec{Method: "GET", Path: "/api/version", Cookie: sid}); code != 401 {
			return ev.Failf("auth.logged-out-session-live:afterwards", "%d clients used a session that expired in %d ms while it was logged out (204): afterwards the cookie is answered %d - the session is live again", c.Clients, c.AgeMs, code)
		}
		return nil
	})

func TestLogoutVsUse(t *testing.T) {
	n := ev.N(60, 3000)
	if ev.Race() && !ev.Thorough() {
		n = 50 // the workload that puts a logout next to requests using the same session: not a quarter of it
	}
	subLogoutRace.CheckSalt(t, 29, n, func(t *rapid.T) LogoutRace {
		return LogoutRace{
			Clients:  rapid.IntRange(2, 12).Draw(t, "clients"),
			Requests: rapid.IntRange(3, 20).Draw(t, "requests"),
			AgeMs:    rapid.SampledFrom([]int64{2000, 60000, 300000, 599000, 601000, 3000000}).Draw(t, "age"),
			LogoutUs: rapid.SampledFrom([]int{0, 200, 1000, 3000}).Draw(t, "logout"),
		}
	})
}

// ---------------------------------------------------------------- the session object under Destroy and GetSession at once

type DestroyRace struct {
	Readers int `json:"readers"`
	Rounds  int `json:"rounds"`
}

var subDestroyRace = ev.Register("session-destroy-vs-get",
	"20-200 rounds: a fresh session (a full hour to live, so no request extends it) is looked up by 2-6 goroutines in a tight loop through auth.GetSession while another goroutine destroys it (what logout does); oracle: once Destroy has returned the session is not found again; this is mainly a workload for the race detector (C15): every field of the shared session object is touched from both sides; non-trivial = always; distinct by case",
	func(c DestroyRace, o *ev.Obs) *ev.Failure {
		o.NonTrivial = true
		for r := 0; r < c.Rounds; r++ {
			s := auth.CreateSession(int64(1000 + r))
			var wg sync.WaitGroup
			start := make(chan struct{})
			for i := 0; i < c.Readers; i++ {
				wg.Add(1)
				go func() {
					defer wg.Done()
					<-start
					for k := 0; k < 30; k++ {
						auth.GetSession(s.ID)
					}
				}()
			}
			wg.Add(1)
			go func() {
				defer wg.Done()
				<-start
				s.Destroy()
			}()
			close(start)
			wg.Wait()
			if _, ok := auth.GetSession(s.ID); ok {
				return ev.Failf("auth.logged-out-session-live:object-level", "round %d: after Destroy() returned, GetSession still finds the session", r)
			}
		}
		return nil
	})

func TestSessionDestroyVsGet(t *testing.T) {
	subDestroyRace.CheckSalt(t, 31, ev.N(8, 200), func(t *rapid.T) DestroyRace {
		return DestroyRace{Readers: rapid.IntRange(2, 6).Draw(t, "readers"), Rounds: rapid.IntRange(20, 200).Draw(t, "rounds")}
	})
}
