package c20

// Logins for one account that overlap in time: each is decided by its own password. The account's hash
// is a slow one (tens of milliseconds), and the attempts start at drawn fractions of one verification's
// duration, so that wrong passwords arrive while a right one is still being verified, and the reverse.

import (
	"fmt"
	"sync"
	"testing"
	"time"

	"golang.org/x/crypto/argon2"
	"pgregory.net/rapid"
	"reservoir/db/models"
	"reservoir/db/stores"
	"reservoir/utils/phc"

	"encoding/base64"

	"verifharness/internal/ev"
)

type LoginAttempt struct {
	Pw       string `json:"pw"`        // right | wrong | empty | near (the right password plus one byte) | other (another account's password)
	StartPct int    `json:"start_pct"` // start this many percent of one verification's duration after the case began
	Spelling string `json:"spelling,omitempty"`
}

type LoginConc struct {
	Attempts []LoginAttempt `json:"attempts"`
}

const slowUser, slowPassword = "carol", "slow and steady"

var slowOnce sync.Once
var slowErr error
var slowT time.Duration

func slowAccount() (time.Duration, error) {
	slowOnce.Do(func() {
		salt := []byte("0123456789abcdef")
		h := argon2.IDKey([]byte(slowPassword), salt, 6, 32*1024, 1, 32)
		p, err := phc.ParsePHC(fmt.Sprintf("$argon2id$v=19$m=32768,t=6,p=1$%s$%s", base64.RawStdEncoding.EncodeToString(salt), base64.RawStdEncoding.EncodeToString(h)))
		if err != nil {
			slowErr = err
			return
		}
		us, err := stores.OpenUserStore()
		if err != nil {
			slowErr = err
			return
		}
		defer us.Close()
		if slowErr = us.Save(&models.User{Username: slowUser, PasswordHash: *p}); slowErr != nil {
			return
		}
		t0 := time.Now()
		if st, sid := login(slowUser, slowPassword); st != 200 {
			slowErr = fmt.Errorf("sequential login with the right password answered %d", st)
		} else {
			do(reqSpec{Method: "POST", Path: "/api/auth/logout", Cookie: sid})
		}
		slowT = time.Since(t0)
	})
	return slowT, slowErr
}

var subLoginConc = ev.Register("login-concurrency",
	"2-6 logins for one account (stored hash argon2id m=32 MiB t=6, one verification takes tens of ms) start at drawn offsets of 0-90 % of one verification's duration, each with a password class in {right, wrong, empty, right plus one byte, another account's password} and a spelling of the user name; oracle: an attempt answers 200 with a cookie exactly when its own password is the right one, every other attempt answers 401 without a cookie, and a cookie handed to a wrong-password attempt is not a live session; non-trivial = a right and a wrong attempt overlap; distinct by case",
	func(c LoginConc, o *ev.Obs) *ev.Failure {
		T, err := slowAccount()
		if err != nil {
			return ev.Failf("login.harness", "slow account: %v", err)
		}
		type res struct {
			code int
			sid  string
		}
		out := make([]res, len(c.Attempts))
		var wg sync.WaitGroup
		rights, wrongs := 0, 0
		for i, a := range c.Attempts {
			if a.Pw == "right" {
				rights++
			} else {
				wrongs++
			}
			wg.Add(1)
			go func(i int, a LoginAttempt) {
				defer wg.Done()
				time.Sleep(T * time.Duration(a.StartPct) / 100)
				pw := map[string]string{"right": slowPassword, "wrong": "wrong-" + fmt.Sprint(i), "empty": "", "near": slowPassword + "!", "other": goodPassword + "alice"}[a.Pw]
				code, sid := login(spell(slowUser, a.Spelling), pw)
				out[i] = res{code, sid}
			}(i, a)
		}
		wg.Wait()
		defer func() {
			for _, r := range out {
				if r.sid != "" {
					do(reqSpec{Method: "POST", Path: "/api/auth/logout", Cookie: r.sid})
				}
			}
		}()
		o.NonTrivial = rights > 0 && wrongs > 0
		o.Classf("rights:%d", rights)
		o.Classf("attempts:%d", len(c.Attempts))
		for i, a := range c.Attempts {
			r := out[i]
			if a.Pw == "right" {
				continue
			}
			if r.code == 200 || r.sid != "" {
				live, _, _ := do(reqSpec{Method: "GET", Path: "/api/auth/me", Cookie: r.sid})
				return ev.Failf("login.wrong-password-accepted:concurrent", "attempt %d (password class %q, start at %d %% of a verification) among %v answered %d with cookie %v; GET /api/auth/me with that cookie answers %d", i, a.Pw, a.StartPct, c.Attempts, r.code, r.sid != "", live)
			}
			if r.code != 401 {
				return ev.Failf("login.wrong-password-status:concurrent", "attempt %d (password class %q) answered %d, want 401", i, a.Pw, r.code)
			}
		}
		for i, a := range c.Attempts {
			if r := out[i]; a.Pw == "right" && (r.code != 200 || r.sid == "") {
				return ev.Failf("login.valid-rejected:concurrent", "attempt %d (right password, start at %d %%) among %v answered %d", i, a.StartPct, c.Attempts, r.code)
			}
		}
		return nil
	})

func TestLoginConcurrency(t *testing.T) {
	subLoginConc.CheckSalt(t, 23, ev.N(30, 1500), func(t *rapid.T) LoginConc {
		var c LoginConc
		n := rapid.IntRange(2, 6).Draw(t, "attempts")
		for i := 0; i < n; i++ {
			c.Attempts = append(c.Attempts, LoginAttempt{
				Pw:       rapid.SampledFrom([]string{"right", "right", "wrong", "wrong", "empty", "near", "other"}).Draw(t, "pw"),
				StartPct: rapid.SampledFrom([]int{0, 0, 10, 30, 55, 90}).Draw(t, "start"),
				Spelling: rapid.SampledFrom([]string{"", "", "", "upper"}).Draw(t, "spelling"),
			})
		}
		return c
	})
}
