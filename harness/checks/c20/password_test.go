package c20

// "Obtained with the right password" quantifies over passwords too: every string other than the
// password that was set must be refused, whatever its length or alphabet, whether the hash was written
// by the change-password route or found in the database.

import (
	"encoding/json"
	"strings"
	"testing"
	"unicode/utf8"

	"pgregory.net/rapid"
	"reservoir/db/models"
	"reservoir/db/stores"
	"reservoir/utils/phc"
	"reservoir/webserver/auth"

	"verifharness/internal/ev"
)

type PwCase struct {
	Via      string   `json:"via"` // stored (hash computed by the harness's own argon2 and written to the database) | api (PATCH /api/auth/change-password)
	Password string   `json:"password"`
	Tries    []string `json:"tries"`
	// Spelling of the user name in the login requests: "" (as stored) | upper | title | mixed. User names are
	// case-insensitive (the table's collation): every spelling is the same account, with the same one password.
	Spelling string `json:"spelling,omitempty"`
}

func spell(user, how string) string {
	switch how {
	case "upper":
		return strings.ToUpper(user)
	case "title":
		return strings.ToUpper(user[:1]) + user[1:]
	case "mixed":
		return user[:1] + strings.ToUpper(user[1:2]) + user[2:]
	}
	return user
}

func setStored(user, pw string, salt byte) error {
	us, err := stores.OpenUserStore()
	if err != nil {
		return err
	}
	defer us.Close()
	h, err := phc.ParsePHC(cheapPHC(pw, salt))
	if err != nil {
		return err
	}
	return us.Save(&models.User{Username: user, PasswordHash: *h})
}

var subPw = ev.Register("password-exactness",
	"a user's password is set to a generated string (1-1000 bytes around the 55/56/64/72/73/128-byte marks of common KDF limits; ASCII, spaces, multi-byte runes, NUL) either by writing a hash computed with the harness's own argon2 into the database or through PATCH /api/auth/change-password; then logins with the exact string and with near misses (cut at 72 / 64 / 56 bytes, last rune dropped, one byte appended, other tail behind a shared prefix, case of one letter flipped, trailing space, cut at the first NUL, empty); oracle: exactly the set string obtains a session (200 + cookie), every other string gets none; non-trivial = at least one near miss differs from the password only beyond byte 56; distinct by (route, length class, near-miss kinds)",
	func(c PwCase, o *ev.Obs) *ev.Failure {
		const account = "carol"
		user := spell(account, c.Spelling)
		o.Class("via:" + c.Via)
		o.Class("spelling:" + c.Spelling)
		switch n := len(c.Password); {
		case n > 72:
			o.Class("len:>72")
		case n > 56:
			o.Class("len:57-72")
		default:
			o.Class("len:<=56")
		}
		switch c.Via {
		case "stored":
			if err := setStored(account, c.Password, 7); err != nil {
				return ev.Failf("auth.harness", "store: %v", err)
			}
		case "api":
			if err := setStored(account, "tmp-password", 9); err != nil {
				return ev.Failf("auth.harness", "store: %v", err)
			}
			st, sid := login(user, "tmp-password")
			if st != 200 || sid == "" {
				return ev.Failf("login.valid-rejected", "login with the temporary password answered %d", st)
			}
			b, _ := json.Marshal(map[string]string{"current_password": "tmp-password", "new_password": c.Password})
			code, _, body := do(reqSpec{Method: "PATCH", Path: "/api/auth/change-password", Cookie: sid, Body: string(b)})
			if s, ok := auth.GetSession(sid); ok {
				s.Destroy()
			}
			if code != 204 {
				// a refused new password must leave the old one in force
				o.Class("change-refused")
				if st, sid := login(user, "tmp-password"); st != 200 {
					return ev.Failf("password.refused-change-took-effect", "change-password answered %d (%s) but the old password no longer works (%d)", code, clip80(body), st)
				} else if s, ok := auth.GetSession(sid); ok {
					s.Destroy()
				}
				return nil
			}
		}
		if c.Via == "api" {
			// the password that was replaced is no password any more, under any spelling of the name
			for _, u := range []string{user, account} {
				if st, sid := login(u, "tmp-password"); st == 200 || sid != "" {
					if s, ok := auth.GetSession(sid); ok {
						s.Destroy()
					}
					return ev.Failf("login.invalid-accepted:replaced-password", "after change-password the replaced password still obtains a session when the user name is spelled %q (status %d)", u, st)
				}
			}
		}
		st, sid := login(user, c.Password)
		if st != 200 || sid == "" {
			return ev.Failf("login.valid-rejected:"+c.Via, "password of %d bytes set via %s: login with exactly that password answered %d", len(c.Password), c.Via, st)
		}
		if s, ok := auth.GetSession(sid); ok {
			s.Destroy()
		}
		for _, try := range c.Tries {
			if try == c.Password {
				continue
			}
			if common := commonLen(try, c.Password); common >= 56 {
				o.NonTrivial = true
			}
			st, sid := login(user, try)
			if st == 200 || sid != "" {
				if s, ok := auth.GetSession(sid); ok {
					s.Destroy()
				}
				return ev.Failf("login.invalid-accepted:near-miss:"+c.Via, "password of %d bytes set via %s: a different string of %d bytes (equal for the first %d bytes) obtained a session (status %d)", len(c.Password), c.Via, len(try), commonLen(try, c.Password), st)
			}
		}
		return nil
	})

func clip80(s string) string {
	if len(s) > 80 {
		return s[:80]
	}
	return s
}

func commonLen(a, b string) int {
	n := 0
	for n < len(a) && n < len(b) && a[n] == b[n] {
		n++
	}
	return n
}

func drawPassword(t *rapid.T) string {
	n := rapid.SampledFrom([]int{1, 8, 20, 55, 56, 57, 64, 71, 72, 73, 74, 80, 100, 128, 129, 200, 1000}).Draw(t, "len")
	alpha := rapid.SampledFrom([]string{"abcdefghijklmnopqrstuvwxyzABCDEFGHIJKLMNOPQRSTUVWXYZ0123456789", "ab ", "pässwörd-ß€", "a\x00b", "日本語のパスワード", "aA1!\"\\/"}).Draw(t, "alphabet")
	rs := []rune(alpha)
	var b strings.Builder
	for b.Len() < n {
		b.WriteRune(rs[rapid.IntRange(0, len(rs)-1).Draw(t, "r")])
	}
	return b.String()
}

func nearMisses(p string) []string {
	var out []string
	for _, cut := range []int{72, 64, 56, 8} {
		if len(p) > cut {
			c := cut
			for c > 0 && !utf8.RuneStart(p[c]) {
				c--
			}
			out = append(out, p[:c])
		}
	}
	_, last := utf8.DecodeLastRuneInString(p)
	out = append(out, p[:len(p)-last], p+"x", p+" ", " "+p, "")
	if len(p) > 4 {
		out = append(out, p[:len(p)-4]+"~~~~", p[:len(p)/2]+strings.Repeat("z", len(p)-len(p)/2))
	}
	if len(p) > 73 {
		out = append(out, p[:73]+strings.Repeat("q", len(p)-73), p[:72]+"Q")
	}
	if i := strings.IndexByte(p, 0); i >= 0 {
		out = append(out, p[:i])
	}
	for i, r := range p {
		if r >= 'a' && r <= 'z' {
			out = append(out, p[:i]+string(r-32)+p[i+1:])
			break
		}
	}
	return out
}

func TestPasswordExactness(t *testing.T) {
	subPw.CheckSalt(t, 11, ev.N(16, 600), func(t *rapid.T) PwCase {
		p := drawPassword(t)
		c := PwCase{Via: rapid.SampledFrom([]string{"stored", "api", "api"}).Draw(t, "via"), Password: p,
			Spelling: rapid.SampledFrom([]string{"", "", "upper", "title", "mixed"}).Draw(t, "spelling")}
		all := nearMisses(p)
		for _, i := range rapid.SliceOfNDistinct(rapid.IntRange(0, len(all)-1), 1, 5, rapid.ID[int]).Draw(t, "tries") {
			c.Tries = append(c.Tries, all[i])
		}
		return c
	})
}
