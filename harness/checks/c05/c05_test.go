package c05

import (
	"bytes"
	"fmt"
	"io"
	"net/http"
	"sync"
	"testing"
	"time"

	"pgregory.net/rapid"
	"reservoir/cache"
	"reservoir/metrics"
	"reservoir/utils/verifhook"

	"verifharness/internal/ev"
	"verifharness/internal/origin"
	"verifharness/internal/px"
)

func TestMain(m *testing.M)   { ev.Main(m, "C05") }
func TestReplay(t *testing.T) { ev.ReplayWitnesses(t) }

type Cancel struct {
	Client int    `json:"client"` // index; -1 = whoever the origin sees as the flight leader
	When   string `json:"when"`   // gated | headers | midbody
}

type Case struct {
	Backend   string `json:"backend"`
	Transport string `json:"transport"`
	N         int    `json:"n"`
	State     string `json:"state"` // cold | fresh | stale304 | stale200
	// OriginSlowMs > 0: the origin pauses in the middle of its body, so the transfer outlasts the 80 ms
	// lifetime and the entry the flight stores is already stale when the followers read it
	OriginSlowMs int `json:"origin_slow_ms,omitempty"`
	// Late more clients ask for the resource after the planned hang-ups happened and before the origin answers
	Late    int      `json:"late,omitempty"`
	Outcome string   `json:"outcome"` // cacheable | no-store | 404 | 500
	BodyLen int      `json:"body_len"`
	Cancels []Cancel `json:"cancels"`
	Slow    int      `json:"slow"` // index of a slow reader, -1 none
	Hook    string   `json:"hook"` // "" | delete | overwrite : action at the hand-over point of the first request to get there
	// IfRangeAlone: every one of the identical GETs carries an If-Range and no Range. Without a Range the field
	// means nothing (RFC 9110 13.1.5): they are ordinary GETs and share a fetch like any others
	IfRangeAlone string `json:"if_range_alone,omitempty"`
}

type result struct {
	status    int
	body      []byte
	err       error
	cancelled bool
	nonce     string
}

func extraHeaders(c Case) []px.H {
	if c.IfRangeAlone == "" {
		return nil
	}
	return []px.H{{K: "If-Range", V: c.IfRangeAlone}}
}

var sub = ev.Register("coalescing",
	"N in [2,12] identical GETs (optionally all carrying an If-Range without a Range, which means nothing) released together (the origin holds its answer until all are in flight) on a cold, fresh, stale->304 or stale->200 key, with a cacheable / no-store / 404 / 500 outcome, bodies up to 4 MiB, a disconnect plan (any clients, explicitly including the flight leader; while the origin is held, after the header, mid-body), an optional slow reader and an optional entry delete/overwrite at the hand-over yield point; oracle: cacheable => at most one origin fetch (one revalidation) for the resource in the window, every client that did not hang up gets 200 and a complete verified body of one version; not cacheable => every client gets a complete response of its own (nonces pairwise distinct); nobody gets a 5xx the origin did not send; non-trivial = coalesced_requests rose; distinct by (state, outcome, cancel pattern, hook action, transport, backend)",
	func(c Case, o *ev.Obs) *ev.Failure {
		site := origin.NewSite()
		mkVersion := func(v int) origin.Version {
			ver := origin.Version{Ver: v, Len: c.BodyLen + v, ETag: fmt.Sprintf(`"c5-v%d"`, v), SlowMs: c.OriginSlowMs}
			switch c.Outcome {
			case "no-store":
				ver.Headers = []origin.HV{{K: "Cache-Control", V: "no-store"}}
				ver.Nonce = true
			case "404":
				ver.Status, ver.Nonce = 404, true
			case "500":
				ver.Status, ver.Nonce = 500, true
			}
			return ver
		}
		v1 := mkVersion(1)
		site.Set("/c", "c5", v1)
		org := origin.New(site.Handler())
		defer org.Close()
		// entries live 80 ms so that the stale states can be reached quickly; a key that has to stay fresh
		// through the window must not depend on how busy the machine is
		maxAge := 80 * time.Millisecond
		if c.State == "fresh" {
			maxAge = 10 * time.Minute
		}
		env := px.New(px.Opts{Backend: c.Backend, DefaultMaxAge: maxAge})
		defer env.Close()
		cur := v1
		// ---- bring the key into its start state
		if c.State != "cold" && c.Outcome == "cacheable" {
			if r, err := env.Via(c.Transport, px.Req{Method: "GET", Host: org.Addr(), Target: "/c", ReqID: "prime"}); err != nil || r.Status != 200 {
				return ev.Failf("coalesce.harness", "prime failed: %v", err)
			}
			switch c.State {
			case "stale304":
				time.Sleep(130 * time.Millisecond)
			case "stale200":
				time.Sleep(130 * time.Millisecond)
				cur = mkVersion(2)
				site.Set("/c", "c5", cur)
			}
		}
		base := metrics.Global.Requests.HTTPProxyRequests.Get()
		coalBase := metrics.Global.Requests.CoalescedRequests.Get()
		originBase := org.Len()
		// ---- the gate: hold the origin until all N requests are inside the proxy
		inFlight := make(chan struct{}) // all N requests are inside the proxy: clients act (hang up while the answer is held)
		release := make(chan struct{})  // the origin may answer
		var gatedDone sync.WaitGroup    // hang-ups planned for the time the answer is held
		lateStart, lateGo := make(chan struct{}, 1), make(chan struct{})
		var once sync.Once
		var leaderMu sync.Mutex
		leaderID := ""
		site.Gate = func(r *http.Request) {
			if r.Header.Get("X-Verif-Req") == "prime" {
				return
			}
			leaderMu.Lock()
			if leaderID == "" {
				leaderID = r.Header.Get("X-Verif-Req")
			}
			leaderMu.Unlock()
			select {
			case <-release:
			case <-time.After(4 * time.Second):
			}
		}
		go func() {
			// all N requests are inside the proxy (or never will be): release clients and origin together
			deadline := time.Now().Add(1500 * time.Millisecond)
			for metrics.Global.Requests.HTTPProxyRequests.Get() < base+int64(c.N) && time.Now().Before(deadline) {
				time.Sleep(200 * time.Microsecond)
			}
			time.Sleep(2 * time.Millisecond)
			once.Do(func() { close(inFlight) })
			// the hang-ups happen while the answer is held ...
			waitOrTimeout(&gatedDone, time.Second)
			time.Sleep(3 * time.Millisecond)
			// ... and then late comers ask for the same resource, still before the origin answers
			if c.Late > 0 {
				lateStart <- struct{}{}
				d2 := time.Now().Add(time.Second)
				for metrics.Global.Requests.HTTPProxyRequests.Get() < base+int64(c.N+c.Late) && time.Now().Before(d2) {
					time.Sleep(200 * time.Microsecond)
				}
				time.Sleep(2 * time.Millisecond)
			}
			close(release)
		}()
		hookUsed := false
		if c.Hook != "" {
			var hmu sync.Mutex
			verifhook.Set(func(name string, args ...string) {
				if name != "coalesce.afterDo" || len(args) == 0 {
					return
				}
				hmu.Lock()
				defer hmu.Unlock()
				if hookUsed {
					return
				}
				hookUsed = true
				key := cache.CacheKey{Hex: args[0]}
				switch c.Hook {
				case "delete":
					env.Proxy.VerifCache().Delete(key)
				}
			})
			defer verifhook.Set(nil)
		}
		cancelOf := map[int]string{}
		leaderCancel := ""
		for _, cn := range c.Cancels {
			if cn.Client < 0 {
				leaderCancel = cn.When
			} else if cn.Client < c.N {
				cancelOf[cn.Client] = cn.When
			}
		}
		results := make([]result, c.N+c.Late)
		var wg sync.WaitGroup
		gatedDone.Add(c.N)
		// late comers: plain complete GETs started after the hang-ups, while the origin is still holding its answer
		for j := 0; j < c.Late; j++ {
			wg.Add(1)
			go func(i, j int) {
				defer wg.Done()
				if j == 0 {
					select {
					case <-lateStart:
					case <-time.After(5 * time.Second):
					}
					close(lateGo)
				}
				<-lateGo
				resp, err := env.Via(c.Transport, px.Req{Method: "GET", Host: org.Addr(), Target: "/c", ReqID: fmt.Sprintf("late%d", i), Headers: extraHeaders(c)})
				if err != nil {
					results[i].err = err
					return
				}
				results[i] = result{status: resp.Status, body: resp.Body, err: resp.ReadErr}
			}(c.N+j, j)
		}
		for i := 0; i < c.N; i++ {
			wg.Add(1)
			go func(i int) {
				defer wg.Done()
				id := fmt.Sprintf("cl%d", i)
				var g1 sync.Once
				gatedOnce := func() { g1.Do(gatedDone.Done) }
				defer gatedOnce()
				p, err := env.Start(c.Transport, px.Req{Method: "GET", Host: org.Addr(), Target: "/c", ReqID: id, Headers: extraHeaders(c)})
				if err != nil {
					results[i].err = err
					return
				}
				when := cancelOf[i]
				select {
				case <-inFlight:
				case <-time.After(3 * time.Second):
				}
				leaderMu.Lock()
				if leaderID == id && leaderCancel != "" {
					when = leaderCancel
				}
				leaderMu.Unlock()
				if when == "gated" {
					p.Abort()
					results[i].cancelled = true
					gatedOnce()
					return
				}
				gatedOnce()
				st, err := p.Header()
				if err != nil {
					results[i].err = err
					return
				}
				defer st.Close()
				if when == "headers" {
					results[i].cancelled = true
					return
				}
				if when == "midbody" {
					io.CopyN(io.Discard, st.Resp.Body, int64(c.BodyLen/2))
					results[i].cancelled = true
					return
				}
				var body []byte
				if i == c.Slow {
					buf := make([]byte, 4096)
					for k := 0; ; k++ {
						n, e := st.Resp.Body.Read(buf)
						body = append(body, buf[:n]...)
						if e != nil {
							if e != io.EOF {
								err = e
							}
							break
						}
						if k < 30 {
							time.Sleep(time.Millisecond)
						}
					}
				} else {
					body, err = io.ReadAll(st.Resp.Body)
				}
				results[i] = result{status: st.Resp.StatusCode, body: body, err: err}
			}(i)
		}
		wg.Wait()
		verifhook.Set(nil)
		if p := env.Panics(); p != "" {
			return ev.Failf("coalesce.handler-panic", "%s", p)
		}
		// ---- oracle
		fetches := 0
		for _, e := range org.Since(originBase) {
			if e.Target == "/c" {
				fetches++
			}
		}
		coalesced := metrics.Global.Requests.CoalescedRequests.Get() - coalBase
		nCancel := 0
		for _, r := range results {
			if r.cancelled {
				nCancel++
			}
		}
		leaderMu.Lock()
		lid := leaderID
		leaderMu.Unlock()
		leaderCancelled := false
		for i, r := range results {
			if r.cancelled && fmt.Sprintf("cl%d", i) == lid {
				leaderCancelled = true
			}
		}
		o.Class("state:" + c.State)
		o.Class("outcome:" + c.Outcome)
		o.Classf("cancels:%d", nCancel)
		o.Classf("leader-cancelled:%v", leaderCancelled)
		o.Class("hook:" + c.Hook)
		o.Classf("late-comers:%v", c.Late > 0)
		o.Classf("transfer-outlasts-lifetime:%v", c.OriginSlowMs >= 120)
		o.Classf("coalesced:%v", coalesced > 0)
		o.NonTrivial = coalesced > 0
		pattern := ""
		for i := 0; i < c.N; i++ {
			pattern += map[string]string{"": ".", "gated": "g", "headers": "h", "midbody": "m"}[cancelOf[i]]
		}
		o.Canon = fmt.Sprintf("%s|%s|%s|%s|%d|%s|L%s|%s|%d", c.Backend, c.Transport, c.State, c.Outcome, c.N, pattern, leaderCancel, c.Hook, c.BodyLen)
		ctx := fmt.Sprintf("N=%d state=%s outcome=%s transport=%s backend=%s cancels=%s leaderCancel=%q(leader %s cancelled=%v) hook=%s; origin fetches=%d coalesced=%d", c.N, c.State, c.Outcome, c.Transport, c.Backend, pattern, leaderCancel, lid, leaderCancelled, c.Hook, fetches, coalesced)
		wantStatus := 200
		if c.Outcome == "404" {
			wantStatus = 404
		} else if c.Outcome == "500" {
			wantStatus = 500
		}
		nonces := map[string]int{}
		for i, r := range results {
			if r.cancelled {
				continue
			}
			who := "survivor"
			if leaderCancelled {
				who = "survivor-of-cancelled-leader"
			}
			if r.err != nil {
				return ev.Failf("coalesce.no-response:"+who, "%s :: client %d: %v", ctx, i, r.err)
			}
			if r.status != wantStatus {
				return ev.Failf(fmt.Sprintf("coalesce.status-%d:%s", r.status, who), "%s :: client %d got status %d, the origin answers %d", ctx, i, r.status, wantStatus)
			}
			if c.Outcome == "cacheable" {
				ok := bytes.Equal(r.body, origin.BodyOf("c5", cur))
				if !ok && c.State == "stale200" {
					ok = false
				}
				if !ok {
					return ev.Failf("coalesce.wrong-body:"+who, "%s :: client %d: %d body bytes, current version has %d", ctx, i, len(r.body), len(origin.BodyOf("c5", cur)))
				}
			} else {
				// own complete response: nonce line + full body
				nl := bytes.IndexByte(r.body, '\n')
				if nl < 0 || !bytes.Equal(r.body[nl+1:], origin.BodyOf("c5", cur)) {
					return ev.Failf("coalesce.incomplete-own-response:"+who, "%s :: client %d: %d body bytes are not a nonce line + the complete body", ctx, i, len(r.body))
				}
				nonces[string(r.body[:nl])]++
			}
		}
		for n, k := range nonces {
			if k > 1 {
				return ev.Failf("coalesce.shared-uncacheable-body", "%s :: %d clients received the same uncacheable response (%s)", ctx, k, n)
			}
		}
		if c.Outcome == "cacheable" && c.Hook == "" {
			max := 1
			if c.State == "fresh" {
				max = 0
			}
			// a fetch that began after the entry written by the first one can have run out (80 ms) is a
			// late client on a slow machine finding a stale entry, not a failure to coalesce
			if es := org.Since(originBase); fetches > max && max == 1 {
				var first *origin.Entry
				extra := 0
				for i := range es {
					e := &es[i]
					if e.Target != "/c" {
						continue
					}
					if first == nil {
						first = e
						continue
					}
					if first.T1.IsZero() || e.T0.Before(first.T1.Add(60*time.Millisecond)) {
						extra++
					}
				}
				if extra == 0 {
					o.Class("refetch-after-expiry")
					fetches = max
				}
			}
			if fetches > max {
				return ev.Failf("coalesce.extra-origin-fetch:"+c.State, "%s :: the origin was asked %d times, at most %d expected", ctx, fetches, max)
			}
		}
		return nil
	})

func waitOrTimeout(wg *sync.WaitGroup, d time.Duration) {
	done := make(chan struct{})
	go func() { wg.Wait(); close(done) }()
	select {
	case <-done:
	case <-time.After(d):
	}
}

func drawCase(t *rapid.T) Case {
	c := Case{
		Backend:      rapid.SampledFrom([]string{"memory", "file"}).Draw(t, "backend"),
		Transport:    rapid.SampledFrom([]string{"plain", "plain", "tunnel"}).Draw(t, "transport"),
		N:            rapid.IntRange(2, 12).Draw(t, "n"),
		State:        rapid.SampledFrom([]string{"cold", "cold", "fresh", "stale304", "stale200"}).Draw(t, "state"),
		Outcome:      rapid.SampledFrom([]string{"cacheable", "cacheable", "cacheable", "no-store", "404", "500"}).Draw(t, "outcome"),
		BodyLen:      rapid.SampledFrom([]int{10, 3000, 70000, 1 << 20, 4 << 20}).Draw(t, "len"),
		Slow:         -1,
		Hook:         rapid.SampledFrom([]string{"", "", "delete"}).Draw(t, "hook"),
		IfRangeAlone: rapid.SampledFrom([]string{"", "", "", "", `"c5-v1"`, `"some-other-tag"`, "Mon, 02 Jan 2006 15:04:05 GMT"}).Draw(t, "if-range-alone"),
	}
	if c.BodyLen >= 1<<20 && rapid.IntRange(0, 2).Draw(t, "big") != 0 {
		c.BodyLen = 20000
	}
	if c.Outcome != "cacheable" {
		c.State = "cold"
	}
	if rapid.IntRange(0, 2).Draw(t, "late") == 0 {
		c.Late = rapid.IntRange(1, 3).Draw(t, "late-n")
	}
	if c.State != "fresh" && rapid.IntRange(0, 3).Draw(t, "slow-origin") == 0 {
		c.OriginSlowMs = rapid.SampledFrom([]int{30, 120, 250}).Draw(t, "origin-slow-ms")
	}
	if rapid.IntRange(0, 3).Draw(t, "slow") == 0 {
		c.Slow = rapid.IntRange(0, c.N-1).Draw(t, "slow-idx")
	}
	switch rapid.IntRange(0, 3).Draw(t, "cancel-kind") {
	case 0:
	case 1:
		c.Cancels = append(c.Cancels, Cancel{Client: -1, When: rapid.SampledFrom([]string{"gated", "gated", "headers", "midbody"}).Draw(t, "leader-when")})
	default:
		for i := rapid.IntRange(1, 3).Draw(t, "ncancel"); i > 0; i-- {
			c.Cancels = append(c.Cancels, Cancel{Client: rapid.IntRange(0, c.N-1).Draw(t, "who"), When: rapid.SampledFrom([]string{"gated", "headers", "midbody"}).Draw(t, "when")})
		}
		if rapid.Bool().Draw(t, "also-leader") {
			c.Cancels = append(c.Cancels, Cancel{Client: -1, When: "gated"})
		}
	}
	return c
}

func TestCoalescing(t *testing.T) {
	sub.CheckSalt(t, 1, ev.N(320, 16000), drawCase)
}
