package c09

import (
	"bytes"
	"fmt"
	"net/http"
	"os"
	"os/signal"
	"path/filepath"
	"sync"
	"syscall"
	"testing"
	"time"

	"pgregory.net/rapid"
	"reservoir/cache"
	"reservoir/metrics"
	"reservoir/utils/verifhook"

	"verifharness/internal/ev"
	"verifharness/internal/origin"
	"verifharness/internal/px"
)

func TestMain(m *testing.M) {
	signal.Ignore(syscall.SIGXFSZ) // RLIMIT_FSIZE faults must surface as EFBIG, not kill the process
	ev.Main(m, "C09")
}
func TestReplay(t *testing.T) { ev.ReplayWitnesses(t) }

// Fault is one cache-side fault placed in one request history.
type Fault struct {
	Kind      string `json:"kind"`
	Param     int    `json:"param"`
	Backend   string `json:"backend"`
	Shards    int    `json:"shards"`
	Transport string `json:"transport"`
	BodyLen   int    `json:"body_len"`
	Requests  int    `json:"requests"` // how many times the faulted resource is requested
	Warm      int    `json:"warm"`     // other resources stored first (fill level)
}

/* kinds
full-lt / full-eq / full-2   cache limit below one body / exactly one body / two bodies, cache pre-filled
budget-0 / budget-1          memory_budget_percent 0 / 1
gone-before-304              entry deleted between the stale lookup and the origin's 304
gone-after-renewal           entry deleted between the renewal after the origin's 304 and the lookup of the renewed entry (hook H8)
gone-at-handover             entry deleted at the coalesced hand-over (3 concurrent clients)
gone-before-respond          entry deleted between lookup and response write
replaced-before-respond      entry overwritten between lookup and response write
janitor-1ms                  1 ms janitor, entries expire immediately
empty-body                   200 with an empty body and cacheable headers
dir-removed / dir-is-file    cache directory removed / replaced by a regular file (file backend)
dev-full                     per-key symlink to /dev/full: the write fails at byte 0 (file backend)
fsize                        RLIMIT_FSIZE = Param % of the body: the write fails part-way (file backend)
evict-remove-fails           the file of the eviction's first candidate cannot be removed (it was replaced by a
                             non-empty directory), cache over its limit: the eviction triggered by the next store fails
                             for that candidate (file backend)
*/

func setFsize(n uint64) (restore func()) {
	var old syscall.Rlimit
	syscall.Getrlimit(syscall.RLIMIT_FSIZE, &old)
	syscall.Setrlimit(syscall.RLIMIT_FSIZE, &syscall.Rlimit{Cur: n, Max: old.Max})
	return func() { syscall.Setrlimit(syscall.RLIMIT_FSIZE, &old) }
}

var sub = ev.Register("cache-faults",
	"fault kind x placement x backend x shard count x generated history (body size 0-200 kB, 1-3 requests, fill level, transport): cache full (limit below / equal to / twice a body), memory budget 0/1 %, entry deleted between stale lookup and the origin's 304, at the coalesced hand-over, between lookup and response write, entry replaced before the response is written, 1 ms janitor with immediately expiring entries, empty cacheable body, cache directory removed / replaced by a file, per-key /dev/full symlink, RLIMIT_FSIZE write failure part-way; oracle: the origin log shows only 2xx/304 answers, so every client receives 200 with the complete verified body - never a proxy-made 5xx, EOF, hang or handler panic; non-trivial = the fault demonstrably fired (cache_errors / evictions / hook callback / write error); distinct by (kind, param, backend, shards, body class)",
	func(f Fault, o *ev.Obs) *ev.Failure {
		site := origin.NewSite()
		v := origin.Version{Ver: 1, Len: f.BodyLen, ETag: `"f-v1"`, Headers: []origin.HV{{K: "Cache-Control", V: "max-age=600"}}}
		lifetime := time.Hour
		opts := px.Opts{Backend: f.Backend, Shards: f.Shards}
		filler := max(f.BodyLen, 1000) // pre-fill with bodies of the same size class, so that "full" really is full
		switch f.Kind {
		case "full-lt":
			opts.MaxSize = int64(max(1, f.BodyLen/2))
		case "full-eq":
			opts.MaxSize = int64(max(1, f.BodyLen))
		case "full-2":
			opts.MaxSize = int64(max(2, 2*f.BodyLen))
		case "budget-0":
			opts.MemBudget = -1
		case "budget-1":
			opts.MemBudget = 1
		case "gone-before-304", "gone-after-renewal":
			v.Headers = nil
			lifetime = 60 * time.Millisecond
		case "janitor-1ms":
			v.Headers = nil
			lifetime = time.Millisecond
			opts.Cleanup = time.Millisecond
		case "empty-body":
			v.Len = 0
		case "evict-remove-fails":
			opts.MaxSize = int64(2 * max(f.BodyLen, 1000))
		}
		opts.DefaultMaxAge = lifetime
		site.Set("/f", "f", v)
		for i := 0; i < 8; i++ {
			site.Set(fmt.Sprintf("/w%d", i), fmt.Sprintf("w%d", i), origin.Version{Ver: 1, Len: filler, Headers: []origin.HV{{K: "Cache-Control", V: "max-age=600"}}})
		}
		org := origin.New(site.Handler())
		defer org.Close()
		env := px.New(opts)
		defer env.Close()
		full := origin.BodyOf("f", v)
		get := func(id, target string) (*px.Resp, error) {
			return env.Via(f.Transport, px.Req{Method: "GET", Host: org.Addr(), Target: target, ReqID: id})
		}
		for i := 0; i < f.Warm; i++ {
			get(fmt.Sprintf("warm%d", i), fmt.Sprintf("/w%d", i%8))
		}
		errBase := metrics.Global.Cache.CacheErrors.Get()
		evBase := metrics.Global.Cache.CacheEvictions.Get()
		fired := false
		var keyHex string
		var kmu sync.Mutex
		learnKey := func() {
			verifhook.Set(func(name string, args ...string) {
				if name == "proxy.beforeRespond" && len(args) > 0 {
					kmu.Lock()
					keyHex = args[0]
					kmu.Unlock()
				}
			})
			get("learn", "/f")
			verifhook.Set(nil)
		}
		var restore []func()
		defer func() {
			for _, r := range restore {
				r()
			}
			verifhook.Set(nil)
		}()
		concurrent := 1
		switch f.Kind {
		case "gone-before-304":
			get("prime", "/f")
			time.Sleep(90 * time.Millisecond)
			learnKeyFromCache := func(r *http.Request) {
				if r.Header.Get("If-None-Match") != "" {
					kmu.Lock()
					k := keyHex
					kmu.Unlock()
					if k != "" && env.Proxy.VerifCache().Delete(cache.CacheKey{Hex: k}) == nil {
						fired = true
					}
				}
			}
			// learn the key from the hook on the priming request's twin
			verifhook.Set(func(name string, args ...string) {
				if name == "proxy.beforeRespond" && len(args) > 0 {
					kmu.Lock()
					keyHex = args[0]
					kmu.Unlock()
				}
			})
			get("prime2", "/f") // stale -> revalidated; records the key
			time.Sleep(90 * time.Millisecond)
			verifhook.Set(nil)
			site.Gate = learnKeyFromCache
		case "gone-after-renewal":
			// the origin confirmed the stale entry (304), its lifetime was renewed - and before the renewed entry is
			// looked up for the answer it is gone (evicted by a store of another key, swept, deleted)
			get("prime", "/f")
			time.Sleep(90 * time.Millisecond)
			var once sync.Once
			verifhook.Set(func(name string, args ...string) {
				if name == "reval.afterRenew" && len(args) > 0 {
					once.Do(func() {
						if env.Proxy.VerifCache().Delete(cache.CacheKey{Hex: args[0]}) == nil {
							fired = true
						}
					})
				}
			})
		case "gone-at-handover":
			concurrent = 3
			var once sync.Once
			verifhook.Set(func(name string, args ...string) {
				if name == "coalesce.afterDo" && len(args) > 0 {
					once.Do(func() {
						if env.Proxy.VerifCache().Delete(cache.CacheKey{Hex: args[0]}) == nil {
							fired = true
						}
					})
				}
			})
			site.Gate = func(*http.Request) { time.Sleep(20 * time.Millisecond) }
		case "gone-before-respond", "replaced-before-respond":
			var once sync.Once
			verifhook.Set(func(name string, args ...string) {
				if name == "proxy.beforeRespond" && len(args) > 0 {
					once.Do(func() {
						key := cache.CacheKey{Hex: args[0]}
						if f.Kind == "gone-before-respond" {
							if env.Proxy.VerifCache().Delete(key) == nil {
								fired = true
							}
						} else {
							// overwrite through the proxy's own cache: take the current entry's metadata object
							c := env.Proxy.VerifCache()
							if e, err := c.Get(key); err == nil {
								meta := e.Metadata.Object
								e.Data.Close()
								if ne, err := c.Cache(key, bytes.NewReader(full), time.Now().Add(time.Hour), meta); err == nil {
									ne.Data.Close()
									fired = true
								}
							}
						}
					})
				}
			})
		case "dir-removed":
			os.RemoveAll(env.CacheDir)
			fired = true
		case "dir-is-file":
			os.RemoveAll(env.CacheDir)
			os.WriteFile(env.CacheDir, []byte("not a directory"), 0o644)
			fired = true
		case "dev-full":
			learnKey()
			env.Proxy.VerifCache().Delete(cache.CacheKey{Hex: keyHex})
			os.Remove(filepath.Join(env.CacheDir, keyHex))
			os.Symlink("/dev/full", filepath.Join(env.CacheDir, keyHex))
			os.Symlink("/dev/full", filepath.Join(env.CacheDir, keyHex+".tmp"))
		case "fsize":
			n := uint64(f.BodyLen * f.Param / 100)
			restore = append(restore, setFsize(n))
		case "evict-remove-fails":
			// learn the key of the oldest filler, make its file unremovable, and let the next store evict
			verifhook.Set(func(name string, args ...string) {
				if name == "proxy.beforeRespond" && len(args) > 0 {
					kmu.Lock()
					keyHex = args[0]
					kmu.Unlock()
				}
			})
			get("victim", "/w0")
			verifhook.Set(nil)
			victim := filepath.Join(env.CacheDir, keyHex)
			if os.Remove(victim) == nil && os.MkdirAll(filepath.Join(victim, "sub"), 0o755) == nil {
				fired = true
			}
			time.Sleep(3 * time.Millisecond)
			for i := 1; i < 4; i++ {
				get(fmt.Sprintf("fill%d", i), fmt.Sprintf("/w%d", i))
			}
			restore = append(restore, func() { os.RemoveAll(victim) })
		}
		type out struct {
			r   *px.Resp
			err error
			id  string
		}
		var outs []out
		for i := 0; i < f.Requests; i++ {
			var wg sync.WaitGroup
			res := make([]out, concurrent)
			for c := 0; c < concurrent; c++ {
				wg.Add(1)
				go func(c int) {
					defer wg.Done()
					id := fmt.Sprintf("req%d-%d", i, c)
					r, err := get(id, "/f")
					res[c] = out{r, err, id}
				}(c)
			}
			wg.Wait()
			outs = append(outs, res...)
			if f.Kind == "janitor-1ms" {
				time.Sleep(3 * time.Millisecond)
			}
		}
		for _, r := range restore {
			r()
		}
		restore = nil
		verifhook.Set(nil)
		if metrics.Global.Cache.CacheErrors.Get() > errBase || metrics.Global.Cache.CacheEvictions.Get() > evBase {
			fired = true
		}
		if f.Kind == "janitor-1ms" && metrics.Global.Cache.CleanupRuns.Get() > 0 {
			fired = true
		}
		if f.Kind == "empty-body" {
			fired = true
		}
		o.Class("kind:" + f.Kind)
		o.Class("backend:" + f.Backend)
		o.Classf("shards:%d", f.Shards)
		o.Classf("fired:%v", fired)
		if !fired {
			o.Class("not-fired:" + f.Kind + ":" + f.Backend)
		}
		o.NonTrivial = fired
		o.Canon = fmt.Sprintf("%s|%d|%s|%d|%s|%s", f.Kind, f.Param, f.Backend, f.Shards, lenClass(f.BodyLen), f.Transport)
		if p := env.Panics(); p != "" {
			return ev.Failf("fault.handler-panic:"+f.Kind, "%s", p)
		}
		for _, e := range org.Log() {
			if e.Target == "/f" && e.Status != 200 && e.Status != 304 {
				return ev.Failf("fault.harness", "origin answered %d", e.Status)
			}
		}
		ctx := fmt.Sprintf("fault %s(param %d) backend=%s shards=%d transport=%s body=%d warm=%d", f.Kind, f.Param, f.Backend, f.Shards, f.Transport, v.Len, f.Warm)
		for _, x := range outs {
			if x.err != nil {
				return ev.Failf("fault.no-response:"+f.Kind+":"+f.Backend, "%s :: %s: the origin answered successfully but the client got no response: %v", ctx, x.id, x.err)
			}
			if x.r.ReadErr != nil {
				return ev.Failf("fault.truncated:"+f.Kind+":"+f.Backend, "%s :: %s: status %d, body read error %v after %d bytes", ctx, x.id, x.r.Status, x.r.ReadErr, len(x.r.Body))
			}
			if x.r.Status != 200 {
				return ev.Failf(fmt.Sprintf("fault.status-%d:%s:%s", x.r.Status, f.Kind, f.Backend), "%s :: %s: the origin answered 200/304 only, the client got %d %q", ctx, x.id, x.r.Status, clip(x.r.Body))
			}
			if !bytes.Equal(x.r.Body, full) {
				return ev.Failf("fault.wrong-body:"+f.Kind+":"+f.Backend, "%s :: %s: 200 with %d body bytes, the origin's body has %d", ctx, x.id, len(x.r.Body), len(full))
			}
		}
		return nil
	})

func clip(b []byte) string {
	if len(b) > 60 {
		b = b[:60]
	}
	return string(b)
}

func lenClass(n int) string {
	switch {
	case n == 0:
		return "0"
	case n < 100:
		return "tiny"
	case n < 10000:
		return "small"
	default:
		return "large"
	}
}

var kinds = []struct {
	kind     string
	backends []string
	params   []int
}{
	{"full-lt", []string{"memory", "file"}, []int{0}},
	{"full-eq", []string{"memory", "file"}, []int{0}},
	{"full-2", []string{"memory", "file"}, []int{0}},
	{"budget-0", []string{"memory"}, []int{0}},
	{"budget-1", []string{"memory"}, []int{0}},
	{"gone-before-304", []string{"memory", "file"}, []int{0}},
	{"gone-after-renewal", []string{"memory", "file"}, []int{0}},
	{"gone-at-handover", []string{"memory", "file"}, []int{0}},
	{"gone-before-respond", []string{"memory", "file"}, []int{0}},
	{"replaced-before-respond", []string{"memory", "file"}, []int{0}},
	{"janitor-1ms", []string{"memory", "file"}, []int{0}},
	{"empty-body", []string{"memory", "file"}, []int{0}},
	{"dir-removed", []string{"file"}, []int{0}},
	{"dir-is-file", []string{"file"}, []int{0}},
	{"dev-full", []string{"file"}, []int{0}},
	{"fsize", []string{"file"}, []int{0, 1, 50, 99}},
	{"evict-remove-fails", []string{"file"}, []int{0}},
}

func TestCacheFaults(t *testing.T) {
	// a request that is never answered is what this check looks for: 6 s is the watchdog for exchanges that take milliseconds
	oldTimeout := px.Timeout
	px.Timeout = 6 * time.Second
	defer func() { px.Timeout = oldTimeout }()
	histories := 3
	if ev.Thorough() {
		histories = 60
	}
	idx := 0
	for _, kd := range kinds {
		for _, be := range kd.backends {
			for _, shards := range []int{1, 2, 64} {
				for _, param := range kd.params {
					idx++
					if idx%ev.NShards != ev.Shard {
						continue
					}
					kd, be, shards, param := kd, be, shards, param
					t.Run(fmt.Sprintf("%s-%s-%d-%d", kd.kind, be, shards, param), func(t *testing.T) {
						sub.CheckSalt(t, uint64(idx), histories, func(t *rapid.T) Fault {
							f := Fault{Kind: kd.kind, Param: param, Backend: be, Shards: shards,
								Transport: rapid.SampledFrom([]string{"plain", "plain", "tunnel"}).Draw(t, "transport"),
								BodyLen:   rapid.SampledFrom([]int{1, 40, 3000, 70000, 200000}).Draw(t, "len"),
								Requests:  rapid.IntRange(1, 3).Draw(t, "requests"),
								Warm:      rapid.IntRange(0, 8).Draw(t, "warm")}
							return f
						})
					})
				}
			}
		}
	}
	ev.Note("cache-faults: every fault kind x backend x shard count {1,2,64} x parameter, %d generated histories each", histories)
}
