package c02

// The key of a request is a function of that request alone: computing the keys of different requests
// at the same moment (which is what concurrent proxy traffic does) must give every request the key it
// gets when it is computed on its own.

import (
	"fmt"
	"sync"
	"testing"

	"pgregory.net/rapid"

	"verifharness/internal/ev"
	"verifharness/internal/ref"
)

type ConcKeys struct {
	Targets    []ref.Target `json:"targets"`
	Goroutines int          `json:"goroutines"`
	Rounds     int          `json:"rounds"`
}

var subConcKeys = ev.Register("key-concurrent",
	"4-16 goroutines compute cache keys (http.ReadRequest -> cache.MakeFromRequest) for 2-8 generated distinct requests at the same moment, 200-2000 rounds behind a start barrier; oracle: every computation returns the key the same request gets when keyed alone (sequential reference computed first), so no request is ever filed under another one's key; non-trivial = at least two targets with different sequential keys; distinct by target set",
	func(c ConcKeys, o *ev.Obs) *ev.Failure {
		var want []string
		var ok []ref.Target
		seen := map[string]bool{}
		for _, tg := range c.Targets {
			k, err := keyOf(tg, "absolute")
			if err != nil {
				continue
			}
			ok = append(ok, tg)
			want = append(want, k)
			seen[k] = true
		}
		if len(ok) < 2 {
			o.Skip = true
			return nil
		}
		o.NonTrivial = len(seen) >= 2
		var mu sync.Mutex
		var fail *ev.Failure
		var wg sync.WaitGroup
		start := make(chan struct{})
		for g := 0; g < c.Goroutines; g++ {
			wg.Add(1)
			go func(g int) {
				defer wg.Done()
				<-start
				for r := 0; r < c.Rounds; r++ {
					i := (g + r) % len(ok)
					k, err := keyOf(ok[i], "absolute")
					if err != nil || k != want[i] {
						mu.Lock()
						if fail == nil {
							other := ""
							for j, w := range want {
								if w == k && j != i {
									other = fmt.Sprintf(" - that is the key of %q", ok[j].Method+" "+ok[j].Host+targetString(ok[j]))
								}
							}
							fail = ev.Failf("key.unstable-under-concurrency", "%q keyed while %d goroutines key other requests: got %s, alone it is %s%s (err %v)", ok[i].Method+" "+ok[i].Host+targetString(ok[i]), c.Goroutines, k, want[i], other, err)
						}
						mu.Unlock()
						return
					}
				}
			}(g)
		}
		close(start)
		wg.Wait()
		return fail
	})

func TestKeyConcurrent(t *testing.T) {
	subConcKeys.CheckSalt(t, 31, ev.N(40, 2000), func(t *rapid.T) ConcKeys {
		c := ConcKeys{Goroutines: rapid.IntRange(4, 16).Draw(t, "goroutines"), Rounds: rapid.SampledFrom([]int{200, 1000, 2000}).Draw(t, "rounds")}
		for i := rapid.IntRange(2, 8).Draw(t, "targets"); i > 0; i-- {
			c.Targets = append(c.Targets, drawTarget(t))
		}
		return c
	})
}
