package c02

import (
	"bufio"
	"bytes"
	"fmt"
	"net/http"
	"strings"
	"testing"

	"pgregory.net/rapid"
	"reservoir/cache"

	"verifharness/internal/ev"
	"verifharness/internal/origin"
	"verifharness/internal/px"
	"verifharness/internal/ref"
)

func TestMain(m *testing.M)   { ev.Main(m, "C02") }
func TestReplay(t *testing.T) { ev.ReplayWitnesses(t) }

type Pair struct {
	A    ref.Target `json:"a"`
	B    ref.Target `json:"b"`
	Form string     `json:"form"` // "absolute" (plain proxying) | "origin" (inside a tunnel)
	Mut  []string   `json:"mutations,omitempty"`
}

func targetString(t ref.Target) string {
	s := t.Path
	if t.HasQ {
		s += "?" + t.Query
	}
	return s
}

// keyOf runs the wire form through net/http's request parser (as the proxy's server does) and
// then through cache.MakeFromRequest.
func keyOf(t ref.Target, form string) (string, error) {
	var line string
	if form == "absolute" {
		line = fmt.Sprintf("%s http://%s%s HTTP/1.1\r\nHost: %s\r\n\r\n", t.Method, t.Host, targetString(t), t.Host)
	} else {
		line = fmt.Sprintf("%s %s HTTP/1.1\r\nHost: %s\r\n\r\n", t.Method, targetString(t), t.Host)
	}
	r, err := http.ReadRequest(bufio.NewReader(strings.NewReader(line)))
	if err != nil {
		return "", err
	}
	return cache.MakeFromRequest(r).Hex, nil
}

var subUnit = ev.Register("key-pairs",
	"pairs of requests (method, Host, raw path, raw query) where the second is the first under 1-2 adversarial mutations (toggle trailing slash, insert ./, x/../, //, flip host case, move a |tail across the path/query, method/host or host/path boundary, swap a character with its percent-encoding, add/remove an empty query, change method/host/query), parsed by http.ReadRequest and keyed by cache.MakeFromRequest; oracle: three-valued SameResource reference (RFC 3986 remove_dot_segments + duplicate-slash collapse, trailing slash preserved); non-trivial = the wire forms differ and the verdict is not EITHER; distinct by normalised pair",
	func(p Pair, o *ev.Obs) *ev.Failure {
		verdict, why := ref.SameResource(p.A, p.B)
		if len(p.Mut) == 1 && p.Mut[0] == "hash-tail" {
			verdict, why = ref.MustNot, "hash-tail" // the reference gives no verdict on raw characters outside the URI alphabet; this one it can
		}
		o.Class("verdict:" + string(verdict))
		o.Class("why:" + why)
		o.Class("form:" + p.Form)
		wa, wb := p.A.Method+" "+p.A.Host+targetString(p.A), p.B.Method+" "+p.B.Host+targetString(p.B)
		o.NonTrivial = wa != wb && verdict != ref.Either
		o.Canon = wa + " || " + wb + " || " + p.Form
		ka, err1 := keyOf(p.A, p.Form)
		kb, err2 := keyOf(p.B, p.Form)
		if err1 != nil || err2 != nil {
			o.Skip = true // not a request net/http accepts: outside the domain
			return nil
		}
		if verdict == ref.MustNot && ka == kb {
			return ev.Failf("key.collision:"+why+mutClass(p), "%q and %q (%s-form) are different resources (%s) but share the cache key", wa, wb, p.Form, why)
		}
		if verdict == ref.Must && ka != kb {
			return ev.Failf("key.split:"+why, "%q and %q (%s-form) name the same resource (%s) but have different cache keys", wa, wb, p.Form, why)
		}
		return nil
	})

func mutClass(p Pair) string {
	for _, m := range p.Mut {
		if strings.HasPrefix(m, "pipe") {
			return ":pipe-boundary"
		}
	}
	return ""
}

var pathSegs = []string{"a", "b", "A", "dir", ".", "..", "", "%2e", "%2E%2e", "%2F", "a%2Fb", "p|q", "%7C", "|", "x|GET", "c;d", "e:f", "g@h", "%20", "%C3%A9", "~u", "a.b", "..."}
var rawQueries = []string{"x", "x=1", "a|b", "b|c", "/", "%7C", "a=%31", "a=1", "x=1&y=2", "y=2&x=1", "|", "q=a/b", "..", "x=1|"}
var hosts = []string{"example.test", "EXAMPLE.test", "example.test:80", "example.test:8080", "other.test", "example.test|x", "a.example.test", "127.0.0.1:8080"}
var methods = []string{"GET", "GET", "GET", "HEAD", "POST", "PUT", "DELETE"}

func drawTarget(t *rapid.T) ref.Target {
	n := rapid.IntRange(0, 4).Draw(t, "nseg")
	var b strings.Builder
	for i := 0; i < n; i++ {
		b.WriteByte('/')
		b.WriteString(rapid.SampledFrom(pathSegs).Draw(t, "seg"))
	}
	if n == 0 || rapid.IntRange(0, 2).Draw(t, "trail") == 0 {
		b.WriteByte('/')
	}
	tg := ref.Target{Method: rapid.SampledFrom(methods).Draw(t, "method"), Host: rapid.SampledFrom(hosts[:5]).Draw(t, "host"), Path: b.String()}
	if rapid.IntRange(0, 2).Draw(t, "hasq") == 0 {
		tg.HasQ = true
		tg.Query = rapid.SampledFrom(rawQueries).Draw(t, "query")
	}
	return tg
}

func flipCase(s string) string {
	var b strings.Builder
	for i, r := range s {
		if i%2 == 0 {
			b.WriteString(strings.ToUpper(string(r)))
		} else {
			b.WriteString(strings.ToLower(string(r)))
		}
	}
	return b.String()
}

var encSwap = [][2]string{{"a", "%61"}, {"A", "%41"}, {"/", "%2F"}, {"|", "%7C"}, {".", "%2E"}, {"~", "%7E"}, {";", "%3B"}}

func mutate(t *rapid.T, a ref.Target) (ref.Target, string) {
	b := a
	kinds := []string{"trailing-slash", "dot", "dotdot", "double-slash", "host-case", "pipe-path-query", "pipe-host-path", "pipe-method",
		"percent-swap", "empty-query", "method", "host", "query", "path-case", "append-segment", "query-to-path", "identity", "hash-tail"}
	k := rapid.SampledFrom(kinds).Draw(t, "mutation")
	switch k {
	case "trailing-slash":
		if strings.HasSuffix(b.Path, "/") && b.Path != "/" {
			b.Path = strings.TrimSuffix(b.Path, "/")
		} else {
			b.Path += "/"
		}
	case "dot":
		i := rapid.IntRange(0, strings.Count(b.Path, "/")-1).Draw(t, "at")
		b.Path = insertAtSlash(b.Path, i, "/.")
	case "dotdot":
		i := rapid.IntRange(0, strings.Count(b.Path, "/")-1).Draw(t, "at")
		b.Path = insertAtSlash(b.Path, i, "/zz/..")
	case "double-slash":
		i := rapid.IntRange(0, strings.Count(b.Path, "/")-1).Draw(t, "at")
		b.Path = insertAtSlash(b.Path, i, "/")
	case "host-case":
		b.Host = flipCase(b.Host)
	case "pipe-path-query":
		// move a |tail across the path/query boundary: /p?x|y  <->  /p|x?y style
		if b.HasQ {
			b.Path, b.Query = b.Path+"|"+b.Query, "moved"
			a2 := a
			_ = a2
		} else {
			b.HasQ, b.Query = true, "tail"
			b.Path += "|x"
		}
	case "pipe-host-path":
		b.Host = a.Host + "|" + strings.TrimPrefix(a.Path, "/")
		b.Path = "/"
	case "pipe-method":
		b.Path = "/x|" + a.Method + "|" + a.Host + a.Path
	case "percent-swap":
		sw := rapid.SampledFrom(encSwap).Draw(t, "swap")
		if strings.Contains(b.Path[1:], sw[0]) {
			b.Path = "/" + strings.Replace(b.Path[1:], sw[0], sw[1], 1)
		} else if strings.Contains(b.Path, sw[1]) {
			b.Path = strings.Replace(b.Path, sw[1], sw[0], 1)
		}
	case "empty-query":
		if b.HasQ && b.Query == "" {
			b.HasQ = false
		} else if !b.HasQ {
			b.HasQ = true
		}
	case "method":
		b.Method = rapid.SampledFrom(methods).Draw(t, "m2")
	case "host":
		b.Host = rapid.SampledFrom(hosts).Draw(t, "h2")
	case "query":
		b.HasQ, b.Query = true, rapid.SampledFrom(rawQueries).Draw(t, "q2")
	case "path-case":
		b.Path = flipCase(b.Path)
	case "append-segment":
		b.Path = strings.TrimSuffix(b.Path, "/") + "/" + rapid.SampledFrom(pathSegs).Draw(t, "seg2")
	case "hash-tail":
		// a request target has no fragment part (RFC 9112 3.2): a "#" a client puts on the wire belongs to the
		// path or the query it stands in, and the target with the tail is another resource
		// (no "?" and no dot-segment in the tail: in a path a "?" would start the query on the wire, and "#/../x" is
		// the segment "#" followed by a step back - other resources than the pair model means)
		tail := rapid.SampledFrom([]string{"#v2", "#", "#frag"}).Draw(t, "tail")
		if b.HasQ {
			b.Query += tail
		} else {
			b.Path += tail
		}
	case "query-to-path":
		if b.HasQ {
			b.Path, b.HasQ, b.Query = b.Path+"%3F"+b.Query, false, ""
		}
	}
	return b, k
}

func insertAtSlash(p string, idx int, ins string) string {
	n := -1
	for i := 0; i < len(p); i++ {
		if p[i] == '/' {
			n++
			if n == idx {
				return p[:i] + ins + p[i:]
			}
		}
	}
	return p + ins
}

func drawPair(t *rapid.T) Pair {
	a := drawTarget(t)
	p := Pair{A: a, Form: rapid.SampledFrom([]string{"absolute", "origin"}).Draw(t, "form")}
	b := a
	for i := rapid.IntRange(1, 2).Draw(t, "nmut"); i > 0; i-- {
		var k string
		b, k = mutate(t, b)
		p.Mut = append(p.Mut, k)
	}
	if rapid.IntRange(0, 7).Draw(t, "pipe-collision") == 0 {
		// construct the classic separator ambiguity directly: path "/x|T" + query "U"  vs  path "/x" + query "T|U"
		tail, u := rapid.SampledFrom([]string{"b", "q=1", "a|b"}).Draw(t, "tail"), rapid.SampledFrom([]string{"c", "z=2"}).Draw(t, "u")
		p.A = ref.Target{Method: a.Method, Host: a.Host, Path: "/x%7C" + tail, HasQ: true, Query: u}
		b = ref.Target{Method: a.Method, Host: a.Host, Path: "/x", HasQ: true, Query: tail + "|" + u}
		p.Mut = []string{"pipe-constructed"}
	}
	p.B = b
	// long targets: the two requests share a first segment of 200-600 bytes, so that whatever tells them apart
	// comes late in the key material (a key built from a bounded prefix, a fixed buffer, a truncated hash input)
	if rapid.IntRange(0, 5).Draw(t, "long-prefix") == 0 {
		seg := "/" + strings.Repeat(rapid.SampledFrom([]string{"L", "ab", "x-"}).Draw(t, "unit"), rapid.SampledFrom([]int{200, 255, 256, 300, 600}).Draw(t, "n"))
		p.A.Path, p.B.Path = seg+p.A.Path, seg+p.B.Path
		p.Mut = append(p.Mut, "long-prefix")
	}
	return p
}

func TestKeyPairs(t *testing.T) {
	subUnit.CheckSalt(t, 1, ev.N(40000, 3000000), drawPair)
}

// bounded-exhaustive: all targets of <= 3 segments over a small segment alphabet, pairwise
func TestKeyPairsExhaustive(t *testing.T) {
	alphabet := []string{"a", ".", "..", "", "A", "%2e", "a|b"}
	maxSeg := 2
	if ev.Thorough() {
		maxSeg = 3
	}
	var paths []string
	var rec func(prefix string, depth int)
	rec = func(prefix string, depth int) {
		paths = append(paths, prefix+"/")
		if prefix != "" {
			paths = append(paths, prefix)
		}
		if depth == maxSeg {
			return
		}
		for _, s := range alphabet {
			rec(prefix+"/"+s, depth+1)
		}
	}
	rec("", 0)
	queries := []struct {
		has bool
		q   string
	}{{false, ""}, {true, "x"}, {true, "a|b"}}
	idx := 0
	subUnit.Enumerate(t, true, func(yield func(Pair) bool) {
		for _, pa := range paths {
			for _, pb := range paths {
				for _, qa := range queries {
					for _, qb := range queries {
						idx++
						if idx%ev.NShards != ev.Shard {
							continue
						}
						p := Pair{Form: "absolute",
							A: ref.Target{Method: "GET", Host: "example.test", Path: pa, HasQ: qa.has, Query: qa.q},
							B: ref.Target{Method: "GET", Host: "example.test", Path: pb, HasQ: qb.has, Query: qb.q}}
						if !yield(p) {
							return
						}
					}
				}
			}
		}
	})
	ev.Note("key-pairs exhaustive: all pairs of paths with <= %d segments over {a . .. empty A %%2e a|b} (with and without trailing slash) x 3 queries each", maxSeg)
}

// ---------------------------------------------------------------- end-to-end confirmation

type E2E struct {
	Pair      Pair   `json:"pair"`
	Backend   string `json:"backend"`
	Transport string `json:"transport"`
}

var subE2E = ev.Register("key-e2e",
	"request A (stored) then request B through a real proxy against an origin that echoes the request-target it saw; MUST-NOT pairs: B's answer describes B (never A's stored entry); MUST-SHARE pairs: B is served from A's entry without contacting the origin; non-trivial and distinct as for key-pairs",
	func(c E2E, o *ev.Obs) *ev.Failure {
		verdict, why := ref.SameResource(c.Pair.A, c.Pair.B)
		if len(c.Pair.Mut) == 1 && c.Pair.Mut[0] == "hash-tail" {
			verdict, why = ref.MustNot, "hash-tail"
		}
		o.Class("verdict:" + string(verdict))
		o.Class("why:" + why)
		org := origin.New(func(w http.ResponseWriter, r *http.Request, _ []byte, e *origin.Entry) {
			e.Status = 200
			w.Header().Set("Cache-Control", "max-age=600")
			fmt.Fprintf(w, "ECHO %s %s\n", r.Method, r.RequestURI)
		})
		defer org.Close()
		env := px.New(px.Opts{Backend: c.Backend})
		defer env.Close()
		// both requests go to the real origin address; host variants are expressed through letter case only
		fix := func(t ref.Target) (ref.Target, bool) {
			h := org.Addr()
			if strings.ToLower(t.Host) != "example.test" {
				return t, false
			}
			if t.Host != "example.test" {
				h = "LOCALHOST:" + org.Port()
			} else {
				h = "localhost:" + org.Port()
			}
			t.Host = h
			return t, true
		}
		a, okA := fix(c.Pair.A)
		b, okB := fix(c.Pair.B)
		if !okA || !okB || a.Method != "GET" && a.Method != "HEAD" {
			o.Skip = true
			return nil
		}
		wa, wb := a.Method+" "+targetString(a), b.Method+" "+targetString(b)
		o.NonTrivial = (wa != wb || a.Host != b.Host) && verdict != ref.Either
		o.Canon = wa + "||" + wb + "||" + a.Host + b.Host + c.Backend + c.Transport
		ra, err := env.Via(c.Transport, px.Req{Method: a.Method, Host: a.Host, Target: targetString(a), ReqID: "A"})
		if err != nil || ra.Status != 200 {
			o.Skip = true // target not servable (net/http rejects it): outside the domain
			return nil
		}
		rb, err := env.Via(c.Transport, px.Req{Method: b.Method, Host: b.Host, Target: targetString(b), ReqID: "B"})
		if err != nil || rb.Status != 200 {
			o.Skip = true
			return nil
		}
		if p := env.Panics(); p != "" {
			return ev.Failf("key-e2e.handler-panic", "%s", p)
		}
		seenB := org.ByReqID("B")
		if verdict == ref.MustNot {
			if len(seenB) == 0 {
				return ev.Failf("key-e2e.collision:"+why+mutClass(c.Pair), "after %q was stored, %q (a different resource: %s) was answered from the store with %q", wa, wb, why, firstLine(rb.Body))
			}
			if b.Method == "GET" && !bytes.Equal(rb.Body, []byte(fmt.Sprintf("ECHO %s %s\n", seenB[len(seenB)-1].Method, seenB[len(seenB)-1].Target))) {
				return ev.Failf("key-e2e.wrong-body:"+why, "%q answered with %q", wb, firstLine(rb.Body))
			}
		}
		if verdict == ref.Must && len(seenB) != 0 && a.Method == "GET" {
			return ev.Failf("key-e2e.split:"+why, "%q and %q name the same resource (%s) but the second was fetched from the origin again", wa, wb, why)
		}
		return nil
	})

func firstLine(b []byte) string {
	if i := bytes.IndexByte(b, '\n'); i >= 0 {
		b = b[:i]
	}
	if len(b) > 120 {
		b = b[:120]
	}
	return string(b)
}

func TestKeyE2E(t *testing.T) {
	subE2E.CheckSalt(t, 2, ev.N(600, 40000), func(t *rapid.T) E2E {
		p := drawPair(t)
		// keep the pair on one servable host
		p.A.Host, p.B.Host = "example.test", map[bool]string{true: "EXAMPLE.test", false: "example.test"}[strings.ToLower(p.B.Host) == "example.test" && p.B.Host != "example.test"]
		if rapid.IntRange(0, 3).Draw(t, "get") != 0 {
			p.A.Method, p.B.Method = "GET", "GET"
		}
		return E2E{Pair: p, Backend: rapid.SampledFrom([]string{"memory", "file"}).Draw(t, "backend"), Transport: rapid.SampledFrom([]string{"plain", "tunnel"}).Draw(t, "transport")}
	})
}
