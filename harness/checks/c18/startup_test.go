package c18

// Start-up is the other way a configuration gets accepted: whatever var/config.json holds when the
// program starts is either refused / replaced by defaults, or it becomes the running configuration -
// and then it has to be one the program can run under, exactly like an accepted update.

import (
	"encoding/json"
	"strings"
	"testing"

	"pgregory.net/rapid"
	"reservoir/config"

	"verifharness/internal/cfgkit"
	"verifharness/internal/childproc"
	"verifharness/internal/ev"
)

type Startup struct {
	Mutation string `json:"mutation"`
	Bytes    string `json:"bytes"`
}

var subStartup = ev.Register("startup-files",
	"configuration files as found at start-up, loaded by config.LoadOrDefault in a child process: a complete valid document (generated values for all 24 settings) and mutations of it - one setting missing (each of the 24), a whole section missing, a setting null, an ill-typed or unworkable value, an unknown key, the text cut at a drawn byte, empty, not JSON, an array; oracle: the load either fails / falls back (refused) or yields a configuration the program can run under: it can be encoded for GET /api/config, a valid update of one setting is accepted, persisted and the file then loads to the running settings, and a proxy started from it serves a cacheable GET twice; the process never aborts; non-trivial = the file is not the unmodified complete document; distinct by (mutation, addressed setting)",
	func(c Startup, o *ev.Obs) *ev.Failure {
		child, err := childproc.Start()
		if err != nil {
			o.Skip = true
			ev.Incomplete("child: %v", err)
			return nil
		}
		defer child.Close()
		kind := strings.SplitN(c.Mutation, ":", 2)[0]
		o.Class("mutation:" + kind)
		o.NonTrivial = c.Mutation != "none"
		o.Canon = c.Mutation
		r, err := child.Do(map[string]any{"op": "start-from", "bytes": c.Bytes})
		if err != nil {
			if d, ok := err.(*childproc.Died); ok {
				return ev.Failf("startup.process-aborted:"+kind, "start-up from a file with mutation %q aborted the process: %s", c.Mutation, clip(d.Stderr))
			}
			return ev.Failf("config.harness", "%v", err)
		}
		o.Class("verdict:" + strings.SplitN(r.Probe, ":", 2)[0])
		switch {
		case r.Probe == "ok":
			return nil
		case r.Probe == "refused":
			if c.Mutation == "none" {
				return ev.Failf("startup.valid-file-refused", "a complete valid configuration file was refused: %s\n%s", r.Err, clip(c.Bytes))
			}
			return nil
		case strings.HasPrefix(r.Probe, "panic"):
			return ev.Failf("startup.panic:"+kind, "start-up from a file with mutation %q: %s", c.Mutation, r.Probe)
		default:
			return ev.Failf("startup.unworkable-accepted:"+kind, "a file with mutation %q became the running configuration, but: %s", c.Mutation, r.Probe)
		}
	})

func del(d cfgkit.Doc, path string) {
	parts := strings.Split(path, ".")
	m := d
	for _, p := range parts[:len(parts)-1] {
		next, ok := m[p].(map[string]any)
		if !ok {
			return
		}
		m = next
	}
	delete(m, parts[len(parts)-1])
}

func startupCase(d cfgkit.Doc, mutation string, arg any) Startup {
	kind := strings.SplitN(mutation, ":", 2)[0]
	path := ""
	if i := strings.Index(mutation, ":"); i >= 0 {
		path = mutation[i+1:]
	}
	switch kind {
	case "missing", "section-missing":
		del(d, path)
	case "null":
		cfgkit.Set(d, path, nil)
	case "value":
		cfgkit.Set(d, path, arg)
	case "unknown-key":
		cfgkit.Set(d, path, arg)
	}
	b, _ := json.MarshalIndent(d, "", "  ")
	s := string(b)
	switch kind {
	case "cut":
		n := arg.(int) % (len(s) + 1)
		s = s[:n]
	case "empty":
		s = ""
	case "not-json":
		s = "cache:\n  lock_shards: 4\n"
	case "array":
		s = "[" + s + "]"
	}
	return Startup{Mutation: mutation, Bytes: s}
}

var sections = []string{"proxy", "proxy.cache_policy", "webserver", "cache", "cache.file", "cache.memory", "logging"}

func drawStartup(t *rapid.T) Startup {
	d, _ := cfgkit.DrawDoc(t, true)
	paths := cfgkit.Paths()
	switch rapid.IntRange(0, 9).Draw(t, "mutation") {
	case 0:
		return startupCase(d, "none", nil)
	case 1, 2, 3:
		return startupCase(d, "missing:"+rapid.SampledFrom(paths).Draw(t, "path"), nil)
	case 4:
		return startupCase(d, "section-missing:"+rapid.SampledFrom(sections).Draw(t, "section"), nil)
	case 5:
		return startupCase(d, "null:"+rapid.SampledFrom(paths).Draw(t, "path"), nil)
	case 6:
		b := rapid.SampledFrom(boundary).Draw(t, "boundary")
		return startupCase(d, "value:"+b.path, b.value)
	case 7:
		return startupCase(d, "unknown-key:"+rapid.SampledFrom([]string{"cache.extra", "extra", "proxy.cache_policy.extra", "logging.Level"}).Draw(t, "key"), rapid.SampledFrom([]any{1, "x", true, nil}).Draw(t, "v"))
	case 8:
		return startupCase(d, "cut", rapid.IntRange(0, 4000).Draw(t, "at"))
	default:
		return startupCase(d, rapid.SampledFrom([]string{"empty", "not-json", "array"}).Draw(t, "shape"), nil)
	}
}

func TestStartupFiles(t *testing.T) {
	subStartup.CheckSalt(t, 7, ev.N(60, 4000), drawStartup)
}

// every setting missing once (enumeration), from one fixed complete document
func TestStartupEveryMissingKey(t *testing.T) {
	subStartup.Enumerate(t, true, func(yield func(Startup) bool) {
		idx := 0
		for _, kind := range []string{"missing", "null"} {
			for _, p := range cfgkit.Paths() {
				idx++
				if idx%ev.NShards != ev.Shard {
					continue
				}
				var d cfgkit.Doc
				json.Unmarshal([]byte(completeDoc()), &d)
				if !yield(startupCase(d, kind+":"+p, nil)) {
					return
				}
			}
		}
	})
}

func completeDoc() string {
	b, _ := json.Marshal(config.NewDefault())
	return string(b)
}
