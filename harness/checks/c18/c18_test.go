package c18

import (
	"encoding/json"
	"fmt"
	"sort"
	"strings"
	"testing"

	"pgregory.net/rapid"

	"verifharness/internal/cfgkit"
	"verifharness/internal/childproc"
	"verifharness/internal/ev"
	"verifharness/internal/ref"
)

func TestMain(m *testing.M)   { ev.Main(m, "C18") }
func TestReplay(t *testing.T) { ev.ReplayWitnesses(t) }

// Upd is one update document with the verdict the property demands for it.
type Upd struct {
	Doc     cfgkit.Doc `json:"doc"`
	Class   string     `json:"class"`    // what kind of document
	Verdict ref.Tri    `json:"verdict"`  // must = must be accepted, must-not = must be rejected
	FaultAt int64      `json:"fault_at"` // >= 0: the configuration file write fails after this many bytes
}

type Hist struct {
	Backend string `json:"backend"`
	Steps   []Upd  `json:"steps"`
}

// invalid single values: path, JSON value, class
type bad struct {
	path  string
	value any
	class string
	v     ref.Tri
}

var boundary = []bad{
	{"cache.max_cache_size", "0B", "max_cache_size=0", ref.MustNot},
	{"cache.max_cache_size", "0K", "max_cache_size=0", ref.MustNot},
	{"cache.max_cache_size", "1B", "max_cache_size=1B", ref.Must},
	{"cache.max_cache_size", "9223372036854775807B", "max_cache_size=max", ref.Must},
	{"cache.max_cache_size", "9223372036854775808B", "max_cache_size=overflow", ref.MustNot},
	{"cache.max_cache_size", "-1B", "max_cache_size=negative", ref.MustNot},
	{"cache.max_cache_size", "10", "max_cache_size=no-unit", ref.Either},
	{"cache.max_cache_size", "10Mxyz", "max_cache_size=trailing", ref.MustNot},
	{"cache.cleanup_interval", "0s", "cleanup_interval=0", ref.MustNot},
	{"cache.cleanup_interval", "-1s", "cleanup_interval=negative", ref.MustNot},
	{"cache.cleanup_interval", "1ns", "cleanup_interval=1ns", ref.Either},
	{"cache.cleanup_interval", "soon", "cleanup_interval=garbage", ref.MustNot},
	{"cache.memory.memory_budget_percent", -1, "memory_budget=-1", ref.MustNot},
	{"cache.memory.memory_budget_percent", 0, "memory_budget=0", ref.Either},
	{"cache.memory.memory_budget_percent", 100, "memory_budget=100", ref.Must},
	{"cache.memory.memory_budget_percent", 101, "memory_budget=101", ref.MustNot},
	{"cache.lock_shards", 0, "lock_shards=0", ref.MustNot},
	{"cache.lock_shards", -1, "lock_shards=negative", ref.MustNot},
	{"cache.lock_shards", 1, "lock_shards=1", ref.Must},
	// a lock table of 2^40 or 2^62 entries cannot be allocated: the next start dies in make()
	{"cache.lock_shards", 1 << 40, "lock_shards=2^40", ref.MustNot},
	{"cache.lock_shards", 1 << 62, "lock_shards=2^62", ref.MustNot},
	// main.go: "API cannot be disabled while dashboard is enabled" (panics at start); judged MustNot only while
	// the running configuration has the dashboard enabled (see effectiveVerdict)
	{"webserver.api_disabled", true, "api-disabled-alone", ref.MustNot},
	{"cache.file.dir", "", "file.dir=empty", ref.MustNot},
	{"cache.type", "disk", "type=unknown", ref.MustNot},
	{"cache.type", "", "type=empty", ref.MustNot},
	{"proxy.listen", "", "listen=empty", ref.MustNot},
	{"proxy.ca_cert", "", "ca_cert=empty", ref.MustNot},
	{"webserver.listen", "", "webserver.listen=empty", ref.MustNot},
	// ill-typed
	{"cache.max_cache_size", 1024, "ill-typed:size-number", ref.MustNot},
	{"cache.cleanup_interval", 5, "ill-typed:duration-number", ref.MustNot},
	{"cache.lock_shards", "many", "ill-typed:int-string", ref.MustNot},
	{"cache.lock_shards", 1.5, "ill-typed:int-float", ref.MustNot},
	{"proxy.retry_on_range_416", "yes", "ill-typed:bool-string", ref.MustNot},
	{"proxy.listen", 9999, "ill-typed:string-number", ref.MustNot},
	{"logging.level", "LOUD", "ill-typed:level", ref.MustNot},
	{"cache.type", 7, "ill-typed:type-number", ref.MustNot},
	{"proxy.cache_policy.default_max_age", []any{"1h"}, "ill-typed:duration-array", ref.MustNot},
	{"cache.file.dir", nil, "null-value", ref.Either},
}

func drawUpd(t *rapid.T) Upd {
	u := Upd{FaultAt: -1}
	switch rapid.IntRange(0, 9).Draw(t, "kind") {
	case 0, 1:
		u.Doc, _ = cfgkit.DrawDoc(t, false)
		if len(u.Doc) == 0 {
			cfgkit.Set(u.Doc, "cache.lock_shards", 64)
		}
		u.Class, u.Verdict = "valid", ref.Must
	case 2, 3, 4:
		b := rapid.SampledFrom(boundary).Draw(t, "bad")
		u.Doc = cfgkit.Doc{}
		cfgkit.Set(u.Doc, b.path, b.value)
		u.Class, u.Verdict = b.class, b.v
	case 5, 6:
		// several keys of which one fails
		u.Doc, _ = cfgkit.DrawDoc(t, false)
		var bs []bad
		for _, b := range boundary {
			if b.v == ref.MustNot {
				bs = append(bs, b)
			}
		}
		b := rapid.SampledFrom(bs).Draw(t, "bad")
		cfgkit.Set(u.Doc, b.path, b.value)
		u.Class, u.Verdict = "multi-key+"+b.class, ref.MustNot
	case 7:
		u.Doc = rapid.SampledFrom([]cfgkit.Doc{{"cache": cfgkit.Doc{"nope": 1}}, {"nope": cfgkit.Doc{"x": true}}, {}, {"cache": cfgkit.Doc{}}}).Draw(t, "unknown")
		u.Class, u.Verdict = "unknown-key", ref.Either
	case 8:
		u.Doc = rapid.SampledFrom([]cfgkit.Doc{{"cache": 5}, {"cache": cfgkit.Doc{"file": "x"}}, {"proxy": []any{1}}, {"cache": cfgkit.Doc{"memory": cfgkit.Doc{"memory_budget_percent": cfgkit.Doc{"v": 1}}}}}).Draw(t, "shape")
		u.Class, u.Verdict = "wrong-shape", ref.Either
	default:
		u.Doc, _ = cfgkit.DrawDoc(t, false)
		if len(u.Doc) == 0 {
			cfgkit.Set(u.Doc, "proxy.retry_on_invalid_range", true)
		}
		u.Class, u.Verdict = "valid+write-fault", ref.Either
		u.FaultAt = rapid.Int64Range(0, 1400).Draw(t, "fault_at")
	}
	return u
}

// effectiveVerdict adjusts the verdicts that depend on the running configuration: disabling the API is
// unworkable exactly while the dashboard stays enabled.
func effectiveVerdict(u Upd, running map[string]string) ref.Tri {
	flat := map[string]any{}
	addressed(normDoc(u.Doc), "", flat)
	api := running["webserver.api_disabled"] == "true"
	if a, ok := flat["webserver.api_disabled"]; ok {
		if b, isBool := a.(bool); isBool {
			api = b
		} else {
			return u.Verdict // ill-typed: refused for that reason
		}
	}
	dash := running["webserver.dashboard_disabled"] == "true"
	if d, ok := flat["webserver.dashboard_disabled"]; ok {
		if b, isBool := d.(bool); isBool {
			dash = b
		} else {
			return u.Verdict
		}
	}
	if api && !dash {
		// also reached without touching api_disabled: re-enabling the dashboard while the API stays disabled
		return ref.MustNot
	}
	if strings.Contains(u.Class, "api-disabled-alone") && u.Verdict == ref.MustNot {
		return ref.Must // the row's only flaw was the combination, and the combination is fine here
	}
	return u.Verdict
}

func addressed(doc map[string]any, prefix string, out map[string]any) {
	for k, v := range doc {
		p := k
		if prefix != "" {
			p = prefix + "." + k
		}
		if m, ok := v.(map[string]any); ok {
			addressed(m, p, out)
		} else {
			out[p] = v
		}
	}
}

func normDoc(d cfgkit.Doc) map[string]any {
	b, _ := json.Marshal(d)
	var out map[string]any
	json.Unmarshal(b, &out)
	return out
}

var sub = ev.Register("config-updates",
	"histories of update documents applied to a configuration with a running cache + janitor and recording subscribers on every property, inside a journaling child process: valid single- and multi-key documents, boundary values (0, -1, 100, 101, \"0s\", \"-1s\", 1 B, 2^63-1, 2^63), ill-typed values, unknown keys, wrong shapes, several keys of which one fails, and valid documents whose file write fails after n bytes (RLIMIT_FSIZE); oracle: a rejected or failed update leaves Read() of every property, the subscriber log, the effective cache limit (probed through eviction) and the bytes of var/config.json exactly as before, and the process alive; an accepted update changes exactly the addressed settings, the file then loads to the running settings, and a proxy started from the file serves a cacheable GET twice; documents that must be rejected (unworkable or ill-typed values) are rejected, valid ones accepted; non-trivial = a rejected or faulted update on a configuration with live subscribers; distinct by (document class, fault byte)",
	func(h Hist, o *ev.Obs) *ev.Failure {
		child, err := childproc.Start()
		if err != nil {
			o.Skip = true
			ev.Incomplete("child: %v", err)
			return nil
		}
		defer child.Close()
		do := func(step string, cmd map[string]any) (*childproc.Result, *ev.Failure) {
			r, err := child.Do(cmd)
			if err != nil {
				if d, ok := err.(*childproc.Died); ok {
					return nil, ev.Failf("config.process-aborted:"+step, "the process aborted while handling %s: %s", step, d.Stderr)
				}
				return nil, ev.Failf("config.harness", "%v", err)
			}
			return r, nil
		}
		if _, f := do("init", map[string]any{"op": "init", "backend": h.Backend}); f != nil {
			return f
		}
		prev, f := do("state", map[string]any{"op": "state"})
		if f != nil {
			return f
		}
		for i, u := range h.Steps {
			o.Class("doc:" + strings.SplitN(u.Class, ":", 2)[0])
			cmd := map[string]any{"op": "update", "doc": u.Doc}
			if u.FaultAt >= 0 {
				cmd = map[string]any{"op": "update-fault", "doc": u.Doc, "limit": u.FaultAt}
			}
			docJSON, _ := json.Marshal(u.Doc)
			step := fmt.Sprintf("step %d update %s [%s]", i, docJSON, u.Class)
			if u.FaultAt >= 0 {
				step += fmt.Sprintf(" with the file write failing after %d bytes", u.FaultAt)
			}
			r, f := do(u.Class, cmd)
			if f != nil {
				f.What = step + ": " + f.What
				return f
			}
			cur, f := do("state after "+u.Class, map[string]any{"op": "state"})
			if f != nil {
				return f
			}
			rejected := r.Err != ""
			u.Verdict = effectiveVerdict(u, prev.Vector)
			if rejected {
				o.NonTrivial = true
				if u.Verdict == ref.Must {
					return ev.Failf("config.rejects-valid:"+u.Class, "%s: a valid document was rejected: %s", step, r.Err)
				}
				if d := cfgkit.Diff(prev.Vector, cur.Vector); len(d) > 0 {
					return ev.Failf("config.rejected-update-changed-settings:"+classOf(u), "%s: rejected (%s) but the running settings changed: %v", step, r.Err, d)
				}
				if len(cur.Notified) > 0 {
					return ev.Failf("config.rejected-update-notified:"+classOf(u), "%s: rejected (%s) but subscribers were told %v", step, r.Err, cur.Notified)
				}
				if cur.Restart != prev.Restart {
					return ev.Failf("config.rejected-update-changed-state:restart-needed:"+classOf(u), "%s: rejected (%s) but the process now reports restart-needed=%v (before: %v): every later accepted update will be answered 'restart required'", step, r.Err, cur.Restart, prev.Restart)
				}
				if cur.FileSha != prev.FileSha {
					return ev.Failf("config.rejected-update-changed-file:"+classOf(u), "%s: rejected (%s) but var/config.json changed (now %d bytes: %q)", step, r.Err, len(cur.File), clip(cur.File))
				}
			} else {
				if u.Verdict == ref.MustNot {
					return ev.Failf("config.accepts-unworkable:"+u.Class, "%s: accepted, although the proxy cannot run under it", step)
				}
				want := map[string]any{}
				addressed(normDoc(u.Doc), "", want)
				for _, d := range cfgkit.Diff(prev.Vector, cur.Vector) {
					path := strings.SplitN(d, ":", 2)[0]
					if _, ok := want[path]; !ok {
						return ev.Failf("config.accepted-update-changed-other-setting", "%s: accepted, but %s, which the document does not address", step, d)
					}
				}
				if u.Class == "valid" {
					// the next start loads what is running now
					w, f := do("workable", map[string]any{"op": "workable"})
					if f != nil {
						f.What = step + ": " + f.What
						return f
					}
					if w.Workable != "ok" {
						return ev.Failf("config.accepted-not-workable", "%s: accepted, but a proxy started from the saved file fails: %s", step, w.Workable)
					}
					if d := cfgkit.Diff(cur.Vector, w.Vector); len(d) > 0 {
						return ev.Failf("config.file-differs-from-running", "%s: accepted, but the saved file loads to different settings: %v", step, d)
					}
					cur, _ = do("state", map[string]any{"op": "state"})
				}
			}
			prev = cur
		}
		// the process is still alive and its janitor still works
		if _, f := do("final state", map[string]any{"op": "state"}); f != nil {
			return f
		}
		var cls []string
		for _, u := range h.Steps {
			cls = append(cls, fmt.Sprintf("%s@%d", u.Class, u.FaultAt))
		}
		sort.Strings(cls)
		o.Canon = h.Backend + "|" + strings.Join(cls, ",")
		return nil
	})

func classOf(u Upd) string {
	if u.FaultAt >= 0 {
		return "write-fault"
	}
	return strings.SplitN(u.Class, "=", 2)[0]
}

func clip(s string) string {
	if len(s) > 200 {
		return s[:200]
	}
	return s
}

func drawHist(t *rapid.T) Hist {
	h := Hist{Backend: rapid.SampledFrom([]string{"memory", "file"}).Draw(t, "backend")}
	for i := rapid.IntRange(1, 6).Draw(t, "steps"); i > 0; i-- {
		u := drawUpd(t)
		h.Steps = append(h.Steps, u)
		// what an operator does after a failed save: send the same update again (now the disk is fine), or the
		// same valid update twice in a row
		if (u.FaultAt >= 0 || u.Class == "valid") && rapid.IntRange(0, 2).Draw(t, "again") == 0 {
			again := u
			again.FaultAt = -1
			again.Class, again.Verdict = "valid", ref.Must
			h.Steps = append(h.Steps, again)
		}
		// ... or tries to change the same settings once more, this time with one unworkable value among them:
		// the refusal must leave them at what the previous accepted update set, not at something older
		if u.Class == "valid" && rapid.IntRange(0, 2).Draw(t, "then-poisoned") == 0 {
			flat := map[string]any{}
			addressed(u.Doc, "", flat)
			d := cfgkit.Doc{}
			for p := range flat {
				if gen, ok := cfgkit.Valid[p]; ok {
					cfgkit.Set(d, p, gen(t))
				}
			}
			var bs []bad
			for _, b := range boundary {
				if b.v == ref.MustNot {
					bs = append(bs, b)
				}
			}
			b := rapid.SampledFrom(bs).Draw(t, "poison")
			cfgkit.Set(d, b.path, b.value)
			h.Steps = append(h.Steps, Upd{Doc: d, Class: "multi-key+" + b.class, Verdict: ref.MustNot, FaultAt: -1})
		}
	}
	return h
}

func TestConfigUpdates(t *testing.T) {
	sub.CheckSalt(t, 1, ev.N(120, 10000), drawHist)
}

// every boundary / ill-typed value once, alone, on both backends (enumeration)
func TestConfigBoundaryTable(t *testing.T) {
	sub.Enumerate(t, true, func(yield func(Hist) bool) {
		idx := 0
		for _, be := range []string{"memory", "file"} {
			for _, b := range boundary {
				idx++
				if idx%ev.NShards != ev.Shard {
					continue
				}
				d := cfgkit.Doc{}
				cfgkit.Set(d, b.path, b.value)
				if !yield(Hist{Backend: be, Steps: []Upd{{Doc: d, Class: b.class, Verdict: b.v, FaultAt: -1}}}) {
					return
				}
			}
		}
	})
}

// the configuration file write fails after every byte count (thorough) / a sample (quick)
func TestConfigWriteFaultEveryByte(t *testing.T) {
	step := int64(37)
	if ev.Thorough() {
		step = 1
	}
	sub.Enumerate(t, ev.Thorough(), func(yield func(Hist) bool) {
		idx := 0
		for n := int64(0); n <= 1500; n += step {
			idx++
			if idx%ev.NShards != ev.Shard {
				continue
			}
			d := cfgkit.Doc{}
			cfgkit.Set(d, "cache.lock_shards", 77)
			cfgkit.Set(d, "proxy.retry_on_invalid_range", true)
			if !yield(Hist{Backend: "memory", Steps: []Upd{{Doc: d, Class: "valid+write-fault", Verdict: ref.Either, FaultAt: n}}}) {
				return
			}
		}
	})
}
