#!/bin/sh
# MANIFEST.setup_cmd: warm the Go build cache for the harness (offline, from files on disk only).
set -e
cd "$(dirname "$0")/harness"
export GOFLAGS=-mod=mod GOPROXY=off GOSUMDB=off GOTOOLCHAIN=local
GO=$(command -v go1.26.8 || echo /usr/local/bin/go1.26.8)
T=$(mktemp -d)
trap 'rm -rf "$T"' EXIT
for p in ./checks/*/; do
  "$GO" test -c -tags verif -vet=off -o "$T/x.test" "$p" >/dev/null 2>&1 || echo "setup: warm build of $p failed (the check itself will report it)"
done
# race runtime + instrumented std
"$GO" test -c -race -tags verif -vet=off -o "$T/x.test" ./checks/c07 >/dev/null 2>&1 || true
echo "setup done"
